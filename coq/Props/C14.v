(* Props/C14.v *)
From Coq Require Import List Bool ZArith.
From Coq Require Import Floats.SpecFloat.
From ND Require Import Base.Dtype Base.DtypeFacts Ndx.ElemSyntax Ndx.ElemSem Ndx.Cast.
Import ListNotations.

(* over all ordered pairs of built-in dtypes: a cast is refused exactly when it would have to
   discard nulls; otherwise the result has the requested dtype *)
Theorem C14_defined_iff_no_null_is_dropped : forall a b, a <> DStruct -> b <> DStruct ->
  (astype_outcome a b = CastErr <-> (is_nullable a = true /\ is_nullable b = false)).
Proof.
  intros a b Ha Hb. destruct a, b; simpl; try congruence; split; try discriminate; try (intros [? ?]; discriminate); auto.
Qed.
Theorem C14_result_dtype_and_mask : forall a b d k f, astype_outcome a b = CastTo d k f ->
  d = b /\ (k = true <-> is_nullable a = true /\ is_nullable b = true)
        /\ (f = true <-> is_nullable a = false /\ is_nullable b = true).
Proof.
  intros a b d k f. destruct a, b; simpl; try discriminate; intros [= <- <- <-]; repeat split; auto; try discriminate; intros [? ?]; discriminate.
Qed.
Print Assumptions C14_result_dtype_and_mask.

(* integer -> integer: in-range values are preserved (out-of-range values wrap, as NumPy) *)
Theorem C14_int_to_int : forall c c' z, is_int c = true -> in_range c z -> cast_to c (VI c' z) = RV (VI c z).
Proof. exact cast_int_int_in_range. Qed.

(* float -> integer is truncation toward zero *)
Theorem C14_float_to_int_truncates : forall s m e z, sf_trunc (S754_finite s m e) = Some z ->
  let a := Z.abs z in
  (if s then z <= 0 else 0 <= z)%Z /\
  ((0 <= e)%Z -> a = (Z.pos m * 2 ^ e)%Z) /\
  ((e < 0)%Z -> (a * 2 ^ (- e) <= Z.pos m < (a + 1) * 2 ^ (- e))%Z).
Proof. exact sf_trunc_spec. Qed.
Print Assumptions C14_float_to_int_truncates.

(* bool <-> numeric: zero / non-zero *)
Theorem C14_bool_of_int : forall c z, cast_to CBool (VI c z) = RV (VB (negb (z =? 0)%Z)).
Proof. reflexivity. Qed.
Theorem C14_int_of_bool : forall c b, is_int c = true -> cast_to c (VB b) = RV (VI c (if b then 1 else 0)%Z).
Proof. intros c b H. destruct c; try discriminate; reflexivity. Qed.

(* can_cast: value-preserving embeddings are reflexive and transitive (a preorder) *)
Theorem C14_can_cast_refl : forall a, can_cast_safe a a = true.
Proof. destruct a; reflexivity. Qed.
Theorem C14_can_cast_trans : forall a b c, can_cast_safe a b = true -> can_cast_safe b c = true -> can_cast_safe a c = true.
Proof. destruct a, b, c; simpl; intros; try reflexivity; try discriminate. Qed.

Example C14_ex : astype_outcome (DNull CI8) (DCore CI8) = CastErr /\ astype_outcome (DCore CF32) (DNull CI64) = CastTo (DNull CI64) false true.
Proof. split; reflexivity. Qed.

(* integers to and from their decimal text: reading back the text of any integer gives that integer; distinct
   integers have distinct texts (print_int / parse_int are compared with the implementation's
   astype(int -> utf8) / astype(utf8 -> int) on every run, inside Coq) *)
From ND Require Import Ndx.TextCast.
Theorem C14_text_round_trip : forall z : Z, parse_int (print_int z) = Some z.
Proof. exact parse_print. Qed.
Theorem C14_text_is_injective : forall a b : Z, print_int a = print_int b -> a = b.
Proof. exact print_inj. Qed.
Print Assumptions C14_text_round_trip.
