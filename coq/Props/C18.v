(* Props/C18.v — on the object machine: reading an array (to_numpy, repr, shape, build) is not an
   instruction at all - it is a function of the heap; and any amount of unrelated activity leaves
   every earlier array (graph variable and value), hence every later export of it, unchanged. *)
From Coq Require Import List Arith Bool.
From ND Require Import Machine.Machine Machine.MachineFacts.
Import ListNotations.

Section P.
  Variables (val opid : Type) (sem : opid -> list val -> option val).

  (* export reads graph variables only *)
  Definition export (h : heap val opid) (outs : list nat) : list (option (gexpr val opid)) :=
    map (fun l => option_map (var val opid) (nth_error h l)) outs.

  (* history independence + no side effects: after ANY program that does not update the exported
     arrays in place, the export of arrays that existed before is identical *)
  Theorem C18_unrelated_activity_preserves_exports :
    forall lazy ort p h h' outs,
    run val opid sem lazy ort h p = Some h' ->
    (forall l, In l outs -> l < length h) ->
    (forall l d s, In l outs -> In (ISet val opid d s) p -> l <> d) ->
    export h' outs = export h outs.
  Proof.
    intros lazy ort p h h' outs Hrun Hlen Hset. unfold export. apply map_ext_in. intros l Hl.
    rewrite (run_frame val opid sem lazy ort p h h' l Hrun (Hlen l Hl)); auto.
    intros d s Hin. now apply (Hset l d s).
  Qed.

  (* values too *)
  Theorem C18_unrelated_activity_preserves_values :
    forall lazy ort p h h' l,
    run val opid sem lazy ort h p = Some h' -> l < length h ->
    (forall d s, In (ISet val opid d s) p -> l <> d) ->
    option_map (eager val opid) (nth_error h' l) = option_map (eager val opid) (nth_error h l).
  Proof. intros. now rewrite (run_frame val opid sem lazy ort p h h' l). Qed.
End P.
Print Assumptions C18_unrelated_activity_preserves_exports.
