(* Props/C08.v *)
From Coq Require Import List ZArith Bool.
From ND Require Import Ndx.Slice1D Ndx.Slice1DFacts.
Import ListNotations.
Open Scope Z_scope.

(* One axis, any extent below 2^62, any slice inside the standard's bounds (start/stop given or
   omitted, any step sign, INT64 sentinels included): the Slice ndonnx emits selects exactly the
   index sequence Python's slice semantics selects. *)
Theorem C08_slice_1d : forall n a b c, 0 <= n < 4611686018427387904 -> in_bounds n a b c ->
  onnx_slice n (norm a b c) = py_slice n a b c.
Proof. exact slice_1d. Qed.
Print Assumptions C08_slice_1d.

Theorem C08_guard_needed :
  onnx_slice 3 (norm (Some (-5)) None (Some (-1))) <> py_slice 3 (Some (-5)) None (Some (-1)).
Proof. exact slice_1d_oob_differs. Qed.

Example C08_ex : in_bounds 5 None None (Some (-2)) /\ py_slice 5 None None (Some (-2)) = [4; 2; 0].
Proof. exact slice_1d_ex. Qed.
