(* Props/C08.v *)
From Coq Require Import List ZArith Bool.
From ND Require Import Base.Tensor Ndx.Slice1D Ndx.Slice1DFacts Ndx.Index Ndx.GetItem Ndx.GetItemProof.
Import ListNotations.
Open Scope Z_scope.

(* One axis, any extent below 2^62, any slice inside the standard's bounds (start/stop given or
   omitted, any step sign, INT64 sentinels included): the Slice ndonnx emits selects exactly the
   index sequence Python's slice semantics selects. *)
Theorem C08_slice_1d : forall n a b c, 0 <= n < 4611686018427387904 -> in_bounds n a b c ->
  onnx_slice n (norm a b c) = py_slice n a b c.
Proof. exact slice_1d. Qed.
Print Assumptions C08_slice_1d.

Theorem C08_guard_needed :
  onnx_slice 3 (norm (Some (-5)) None (Some (-1))) <> py_slice 3 (Some (-5)) None (Some (-1)).
Proof. exact slice_1d_oob_differs. Qed.

Example C08_ex : in_bounds 5 None None (Some (-2)) /\ py_slice 5 None None (Some (-2)) = [4; 2; 0].
Proof. exact slice_1d_ex. Qed.

(* n-D: for every element type, every well-formed tensor of every shape and rank, and every index
   tuple made of integers, slices inside the standard's bounds (any step sign, bounds given or
   omitted, extents below 2^62) and None: the lowering — index normalisation, one Slice pass over
   the stepped axes, one Gather per integer axis in reverse order with onnxruntime's range check,
   one Unsqueeze — succeeds and returns exactly the array NumPy's left-to-right semantics defines
   (same shape, same element at every position). *)
Theorem C08_getitem_nd : forall (A : Type) (t : tensor A) (index : list item) (d : A) (r : tensor A),
  wf t -> valid index (shape t) -> np_getitem t index d = Some r -> ndx_getitem_user t index d = Done r.
Proof. exact @getitem_nd. Qed.
Print Assumptions C08_getitem_nd.

(* with one Ellipsis: it stands for the full slices that the lowering expands it to *)
Theorem C08_getitem_nd_ellipsis : forall (A : Type) (t : tensor A) (index : list item) (d : A) (r : tensor A),
  wf t ->
  let ex := expand_ellipsis (Z.of_nat (length (shape t))) index in
  valid ex (shape t) -> np_getitem t ex d = Some r -> ndx_getitem_user t index d = Done r.
Proof. exact @getitem_nd_ellipsis. Qed.
Print Assumptions C08_getitem_nd_ellipsis.

(* every position onnxruntime's Slice selects lies inside the axis (no out-of-range read), for any
   start/stop/step whatsoever *)
Theorem C08_slice_positions_in_range : forall n q, 0 <= n -> Forall (fun x => 0 <= x < n) (onnx_slice n (Some q)).
Proof. exact onnx_slice_range. Qed.
Print Assumptions C08_slice_positions_in_range.

Example C08_nd_ex :
  let t := tab [3; 4]%nat (fun idx => Z.of_nat (ravel [3; 4]%nat idx)) in
  let index := [INone; ISlice None None (Some (-2)); IInt (-1)] in
  valid index (shape t) /\ ndx_getitem_user t index 0 = Done {| shape := [1; 2]%nat; data := [11; 3] |}.
Proof. exact getitem_nd_ex. Qed.

(* boolean mask arrays: x[mask] as lowered (Reshape to [-1] ++ shape[k:], flattened mask, Compress along axis 0) selects,
   for every tensor of every rank and every mask of rank k with mask.shape == x.shape[:k], one block x[idx, ...] per true
   position idx of the mask in row-major order — NumPy's result, shape (count,) ++ x.shape[k:] *)
From ND Require Import Ndx.MaskIndex.
Theorem C08_mask_indexing_is_numpy : forall (A : Type) (t : tensor A) (m : tensor bool) (d : A),
  wf t -> wf m -> shape m = firstn (rank' m) (shape t) -> (size (skipn (rank' m) (shape t)) <> 0%nat \/ (rank' m < 2)%nat) ->
  ndx_getitem_mask t m = Done (np_getitem_mask t m d).
Proof. exact @getitem_mask_is_numpy. Qed.
Print Assumptions C08_mask_indexing_is_numpy.
