(* Props/C04.v *)
From Coq Require Import List Bool ZArith String.
From Coq Require Import Floats.SpecFloat.
From ND Require Import Base.Dtype Ndx.ElemSyntax Ndx.ElemSem Ndx.MaskRule Ndx.ElemTable.
Import ListNotations.

(* For EVERY data, mask and payload: if the mask expression of a row passes the decision
   procedure and evaluates, the output element is null iff some nullable operand is null. *)
Theorem C04_elementwise_mask_rule :
  forall tr trpow envV envN e ns b,
  rule_holds e ns = true -> eval tr trpow envV envN e = RV (VB b) -> b = existsb envN ns.
Proof. exact mask_rule. Qed.
Print Assumptions C04_elementwise_mask_rule.

(* the decision procedure is complete for assignments: it checked every combination of mask
   bits and of values of the data-dependent sub-expressions *)
Theorem C04_decision_procedure_sound :
  forall e ns, rule_holds e ns = true ->
  forall (rn : nat -> bool) (ra : fexpr -> bool), beval rn ra e = existsb rn ns.
Proof. exact rule_holds_sound. Qed.
Print Assumptions C04_decision_procedure_sound.

(* every row of the committed model table obeys the rule, and its values never read a mask *)
Theorem C04_model_table : forallb c04_row_ok table = true.
Proof. vm_compute. reflexivity. Qed.

(* non-vacuity: a row whose mask expression depends on data (trunc on nullable float32) *)
Example C04_ex_trunc :
  exists v n, lookup table "trunc" HFunc [AArr (DNull CF32)] = Some (Traced (DNull CF32) v (Some n))
              /\ atoms n <> [] /\ rule_holds n [0%nat] = true.
Proof. do 2 eexists. split; [vm_compute; reflexivity|]. split; [discriminate|vm_compute; reflexivity]. Qed.
(* and a mask expression that would NOT pass: dropping one operand's mask *)
Example C04_ex_negative : rule_holds (ArgN 0) [0%nat; 1%nat] = false.
Proof. vm_compute. reflexivity. Qed.

(* reductions over nullable arrays: `x = where(x.null, FILL, x.values); Reduce*(x)` *)
From ND Require Import Ndx.NullReduce.
(* whatever FILL is and whatever the reduction does: arrays that differ only under nulls are handed
   to the reduction as the same tensor *)
Theorem C04_reductions_are_payload_independent : forall (A : Type) (fill : A) vals vals' nulls,
  List.length vals = List.length vals' -> agree vals vals' nulls -> fill_nulls fill vals nulls = fill_nulls fill vals' nulls.
Proof. exact @fill_payload_independent. Qed.
Print Assumptions C04_reductions_are_payload_independent.
(* with a fill that is neutral for the reduction the nulls are skipped: the result is the reduction of
   the non-null values alone (any operator, any initial value, any length) *)
Theorem C04_neutral_fill_skips_nulls : forall (A : Type) (op : A -> A -> A) fill e vals nulls,
  (forall x, op fill x = x) -> List.length vals = List.length nulls ->
  fold_right op e (fill_nulls fill vals nulls) = fold_right op e (non_null vals nulls).
Proof. exact @fill_neutral_skips_nulls. Qed.
Print Assumptions C04_neutral_fill_skips_nulls.
Theorem C04_min_fill_is_neutral_in_range : forall hi vals nulls, List.length vals = List.length nulls -> Forall (fun x => x <= hi)%Z vals ->
  fold_right Z.min hi (fill_nulls hi vals nulls) = fold_right Z.min hi (non_null vals nulls).
Proof. exact min_skips_nulls. Qed.
Theorem C04_max_fill_is_neutral_in_range : forall lo vals nulls, List.length vals = List.length nulls -> Forall (fun x => lo <= x)%Z vals ->
  fold_right Z.max lo (fill_nulls lo vals nulls) = fold_right Z.max lo (non_null vals nulls).
Proof. exact max_skips_nulls. Qed.

(* ---- indexing and layout: the null flag travels with its element ------------------------------------------ *)
(* ndonnx applies the same lowering to every field of a nullable array.  For every basic index (integers, slices,
   None, Ellipsis), every tensor of (value, flag) pairs of every rank: indexing the values field and the null field
   separately gives exactly the two fields of the paired tensor indexed once, and both fail together. *)
From ND Require Import Base.Tensor Ndx.GetItem Ndx.Layout Ndx.NullTravel.
Theorem C04_null_flag_travels_with_its_element : forall (A : Type) (t : tensor (A * bool)) index d m,
  ndx_getitem_user (values_of t) index d = res_map values_of (ndx_getitem_user t index (d, m)) /\
  ndx_getitem_user (nulls_of t) index m = res_map nulls_of (ndx_getitem_user t index (d, m)).
Proof. exact @null_flag_travels_with_its_element. Qed.
Print Assumptions C04_null_flag_travels_with_its_element.
Theorem C04_getitem_commutes_with_every_elementwise_map : forall (A B : Type) (f : A -> B) (t : tensor A) index d,
  res_map (tmap f) (ndx_getitem_user t index d) = ndx_getitem_user (tmap f t) index (f d).
Proof. exact @getitem_user_natural. Qed.
Theorem C04_flip_commutes_with_every_elementwise_map : forall (A B : Type) (f : A -> B) (t : tensor A) axes d,
  res_map (tmap f) (ndx_flip t axes d) = ndx_flip (tmap f t) axes (f d).
Proof. exact @flip_natural. Qed.

(* the one-operand public layout functions on a nullable array — permute_dims, reshape, take, roll, broadcast_to,
   expand_dims, squeeze (concat / stack refuse nullable operands today: known finding C11-stack-concat-nullable): applying the function to the values field and to the null field separately (what ndonnx does) is applying
   it once to the (value, flag) tensor: every element keeps its own flag, and both fields succeed or fail together *)
From ND Require Import Ndx.LayoutNatural.
Theorem C04_layout_null_flags_travel : forall (A : Type) (t : tensor (A * bool)) d m,
  (forall axes, ndx_permute_dims (values_of t) axes d = res_map values_of (ndx_permute_dims t axes (d, m)) /\
                ndx_permute_dims (nulls_of t) axes m = res_map nulls_of (ndx_permute_dims t axes (d, m))) /\
  (forall target, ndx_reshape (values_of t) target = res_map values_of (ndx_reshape t target) /\
                  ndx_reshape (nulls_of t) target = res_map nulls_of (ndx_reshape t target)) /\
  (forall ix axis, ndx_take (values_of t) ix axis d = res_map values_of (ndx_take t ix axis (d, m)) /\
                   ndx_take (nulls_of t) ix axis m = res_map nulls_of (ndx_take t ix axis (d, m))) /\
  (forall shifts axes, ndx_roll (values_of t) shifts axes d = res_map values_of (ndx_roll t shifts axes (d, m)) /\
                       ndx_roll (nulls_of t) shifts axes m = res_map nulls_of (ndx_roll t shifts axes (d, m))) /\
  (forall target, ndx_broadcast_to (values_of t) target d = res_map values_of (ndx_broadcast_to t target (d, m)) /\
                  ndx_broadcast_to (nulls_of t) target m = res_map nulls_of (ndx_broadcast_to t target (d, m))) /\
  (forall axis, ndx_expand_dims (values_of t) axis d = res_map values_of (ndx_expand_dims t axis (d, m)) /\
                ndx_expand_dims (nulls_of t) axis m = res_map nulls_of (ndx_expand_dims t axis (d, m))) /\
  (forall axes, ndx_squeeze (values_of t) axes d = res_map values_of (ndx_squeeze t axes (d, m)) /\
                ndx_squeeze (nulls_of t) axes m = res_map nulls_of (ndx_squeeze t axes (d, m))).
Proof. exact @one_operand_null_flags_travel. Qed.
Print Assumptions C04_layout_null_flags_travel.
