(* Props/C04.v *)
From Coq Require Import List Bool ZArith String.
From Coq Require Import Floats.SpecFloat.
From ND Require Import Base.Dtype Ndx.ElemSyntax Ndx.ElemSem Ndx.MaskRule Ndx.ElemTable.
Import ListNotations.

(* For EVERY data, mask and payload: if the mask expression of a row passes the decision
   procedure and evaluates, the output element is null iff some nullable operand is null. *)
Theorem C04_elementwise_mask_rule :
  forall tr trpow envV envN e ns b,
  rule_holds e ns = true -> eval tr trpow envV envN e = RV (VB b) -> b = existsb envN ns.
Proof. exact mask_rule. Qed.
Print Assumptions C04_elementwise_mask_rule.

(* the decision procedure is complete for assignments: it checked every combination of mask
   bits and of values of the data-dependent sub-expressions *)
Theorem C04_decision_procedure_sound :
  forall e ns, rule_holds e ns = true ->
  forall (rn : nat -> bool) (ra : fexpr -> bool), beval rn ra e = existsb rn ns.
Proof. exact rule_holds_sound. Qed.
Print Assumptions C04_decision_procedure_sound.

(* every row of the committed model table obeys the rule, and its values never read a mask *)
Theorem C04_model_table : forallb c04_row_ok table = true.
Proof. vm_compute. reflexivity. Qed.

(* non-vacuity: a row whose mask expression depends on data (trunc on nullable float32) *)
Example C04_ex_trunc :
  exists v n, lookup table "trunc" HFunc [AArr (DNull CF32)] = Some (Traced (DNull CF32) v (Some n))
              /\ atoms n <> [] /\ rule_holds n [0%nat] = true.
Proof. do 2 eexists. split; [vm_compute; reflexivity|]. split; [discriminate|vm_compute; reflexivity]. Qed.
(* and a mask expression that would NOT pass: dropping one operand's mask *)
Example C04_ex_negative : rule_holds (ArgN 0) [0%nat; 1%nat] = false.
Proof. vm_compute. reflexivity. Qed.
