(* Props/C09.v *)
From Coq Require Import List Arith ZArith Bool.
From ND Require Import Base.Tensor Ndx.GetItem Ndx.SetItem Ndx.SetItemFacts Machine.Machine Machine.MachineFacts.
Import ListNotations.

(* x[index] = v : every element not addressed by the index keeps its value ... *)
Theorem C09_assignment_leaves_other_elements_untouched : forall A (t : tensor A) G upd d idx,
  in_bounds (shape t) idx -> ~ In idx G -> get (scatter t G upd d) idx d = get t idx d.
Proof. exact @setitem_frame. Qed.
(* ... every addressed element takes its update, and the shape is unchanged *)
Theorem C09_assignment_writes_the_selected_elements : forall A (t : tensor A) G upd d idx,
  in_bounds (shape t) idx -> In idx G -> exists p, nth_error G p = Some idx /\ get (scatter t G upd d) idx d = upd p.
Proof. exact @setitem_target. Qed.
Theorem C09_assignment_keeps_the_shape : forall A (t : tensor A) G upd d, shape (scatter t G upd d) = shape t.
Proof. exact @setitem_shape. Qed.
Print Assumptions C09_assignment_leaves_other_elements_untouched.

(* heap level: no instruction other than an in-place update of l changes array l — through whole
   programs (finite histories of any length) *)
Theorem C09_no_hidden_aliasing : forall val opid sem lazy ort p h h' l,
  run val opid sem lazy ort h p = Some h' -> l < length h ->
  (forall d s, In (ISet val opid d s) p -> l <> d) ->
  nth_error h' l = nth_error h l.
Proof. exact run_frame. Qed.
Print Assumptions C09_no_hidden_aliasing.

Example C09_ex :
  data (scatter {| shape := [4]; data := [10; 11; 12; 13]%Z |} [[1]; [3]] (fun p => (100 + Z.of_nat p)%Z) 0%Z) = [10; 100; 12; 101]%Z.
Proof. reflexivity. Qed.

(* n-D: for every element type, every tensor, every rank and every index tuple of integers,
   in-bounds slices (any step sign), None and — through C08_getitem_nd_ellipsis — an Ellipsis:
   the lowering of x[index] = v (ScatterND over getitem(ndindex(shape), index)) succeeds, keeps the
   shape, gives the k-th element NumPy's left-to-right semantics addresses (row-major over the
   selection) the k-th update value, and changes nothing else. *)
From ND Require Import Ndx.Index Ndx.GetItem Ndx.GetItemProof Ndx.SetItemProof.
Theorem C09_setitem_nd : forall (A : Type) (t : tensor A) (index : list item) (upd : nat -> A) (d : A) (o : list nat),
  valid index (shape t) -> np_shape index (shape t) = Some o ->
  exists r, ndx_setitem t index upd d = Done r /\ shape r = shape t /\
    (forall oidx, Tensor.in_bounds o oidx -> get r (np_source index (shape t) oidx) d = upd (ravel o oidx)) /\
    (forall idx, Tensor.in_bounds (shape t) idx ->
       (forall oidx, Tensor.in_bounds o oidx -> np_source index (shape t) oidx <> idx) -> get r idx d = get t idx d).
Proof. exact @setitem_nd. Qed.
Print Assumptions C09_setitem_nd.

(* the addressed positions are pairwise distinct: no element is written twice *)
Theorem C09_addressed_positions_distinct : forall index sh o i1 i2, valid index sh -> np_shape index sh = Some o ->
  Tensor.in_bounds o i1 -> Tensor.in_bounds o i2 -> np_source index sh i1 = np_source index sh i2 -> i1 = i2.
Proof. exact np_source_inj. Qed.
Print Assumptions C09_addressed_positions_distinct.

(* ---- the index grid ------------------------------------------------------------------------------------------ *)
From ND Require Import Ndx.NdIndex.
(* the index grid behind ScatterND (and nonzero): as built from Range / Unsqueeze / Expand / Unsqueeze / Concat it is the
   coordinate tensor grid[i_0..i_{r-1}, k] = i_k for every shape of rank >= 1, and its rows are the multi-indices *)
Theorem C09_index_grid_is_the_coordinate_tensor : forall sh, sh <> [] -> ndindex_lowered sh = Done (coord_grid sh).
Proof. exact ndindex_lowered_spec. Qed.
Theorem C09_index_grid_rows_are_the_indices : forall sh idx, Tensor.in_bounds sh idx ->
  map (fun k => get (coord_grid sh) (idx ++ [k]) 0%nat) (seq 0 (length sh)) = idx.
Proof. exact grid_rows_are_the_indices. Qed.
Print Assumptions C09_index_grid_is_the_coordinate_tensor.
Example C09_ex_grid : ndindex_lowered [2; 2]%nat = Done {| shape := [2; 2; 2]%nat; data := [0; 0; 0; 1; 1; 0; 1; 1]%nat |}.
Proof. reflexivity. Qed.

(* ---- Array level: two Arrays alias exactly when they reach a common _CoreArray object ------------------------------------ *)
(* an Array is a core object or a struct of named field Arrays (any nesting).  Whatever program runs, an Array none of whose
   objects is the target of an in-place update is observably unchanged; Arrays that share no object do not interfere; a copy
   reaches freshly allocated objects only, so it shares nothing with any Array that existed before *)
From ND Require Import Machine.ArrayLayer.
Theorem C09_array_frame : forall val opid sem lazy ort p h h' (b : aobj),
  run val opid sem lazy ort h p = Some h' ->
  (forall l, In l (reach b) -> (l < List.length h)%nat) ->
  (forall d s, In (ISet val opid d s) p -> ~ In d (reach b)) ->
  observe val opid h' b = observe val opid h b.
Proof. exact array_frame. Qed.
Theorem C09_disjoint_arrays_do_not_interfere : forall val opid sem lazy ort p h h' (a b : aobj),
  run val opid sem lazy ort h p = Some h' ->
  (forall l, In l (reach b) -> (l < List.length h)%nat) ->
  (forall d s, In (ISet val opid d s) p -> In d (reach a)) ->
  (forall l, In l (reach a) -> ~ In l (reach b)) ->
  observe val opid h' b = observe val opid h b.
Proof. exact disjoint_arrays_do_not_interfere. Qed.
Theorem C09_copy_shares_nothing : forall val opid (a : aobj) h h' a' (b : aobj), acopy val opid h a = Some (h', a') ->
  (forall l, In l (reach b) -> (l < List.length h)%nat) -> forall l, In l (reach a') -> ~ In l (reach b).
Proof. exact copy_shares_nothing. Qed.
Print Assumptions C09_array_frame.
Print Assumptions C09_copy_shares_nothing.
