(* Props/C17.v *)
From Coq Require Import List Bool String.
From ND Require Import Base.Dtype Ndx.ElemSyntax Ndx.ElemLaws Ndx.Baseline Ndx.ElemTable.
Import ListNotations.
Open Scope string_scope.

Definition guarded17 (r : row) : bool := c17_row_ok r || negb (is_none (known_class c17_patterns r)).

Lemma c17_model_table : forallb guarded17 table = true.
Proof. vm_compute. reflexivity. Qed.

(* On the committed model table: every call outside the function's domain that is not in a
   named baseline class raises a TypeError. *)
Theorem C17_model_outside_domain_raises :
  forall r, In r table -> known_class c17_patterns r = None ->
  outside_domain (r_fn r) (r_args r) = true -> r_out r = Raises ETypeError.
Proof.
  intros r Hr Hk Ho. pose proof (proj1 (forallb_forall _ _) c17_model_table r Hr) as H.
  unfold guarded17, c17_row_ok in H. rewrite Hk, Ho in H. simpl in H. rewrite orb_false_r in H.
  destruct (r_out r) as [| |e|]; try discriminate. destruct e; try discriminate. reflexivity.
Qed.
Print Assumptions C17_model_outside_domain_raises.

(* what "outside the domain" covers, by example (non-vacuity) *)
Example C17_ex_numeric_on_string : outside_domain "multiply" [AArr (DCore CStr); AArr (DCore CStr)] = true.
Proof. reflexivity. Qed.
Example C17_ex_logical_on_numbers : outside_domain "logical_or" [AArr (DCore CI8); AArr (DNull CI8)] = true.
Proof. reflexivity. Qed.
Example C17_ex_string_mixed : outside_domain "add" [AArr (DCore CStr); AScal PyInt] = true.
Proof. reflexivity. Qed.
Example C17_ex_row :
  lookup table "multiply" HFunc [AArr (DCore CStr); AArr (DCore CStr)] = Some (Raises ETypeError).
Proof. vm_compute. reflexivity. Qed.

(* FINDINGS (known): the law is false on the pinned tree for the baseline classes *)
Theorem C17_bool_numeric_refuted :
  outside_domain "add" [AArr (DCore CBool); AArr (DCore CI8)] = true /\
  exists v, lookup table "add" HFunc [AArr (DCore CBool); AArr (DCore CI8)] = Some (Traced (DCore CI8) v None).
Proof. split; [reflexivity|]. eexists. vm_compute. reflexivity. Qed.
