(* Props/C13.v *)
From Coq Require Import List Arith ZArith Bool.
From ND Require Import Base.Tensor Ndx.Create Ndx.CreateFacts.
Import ListNotations.
Open Scope Z_scope.

(* integer arange, any start/stop and any step sign: exactly the values start + i*step on the
   near side of stop, and no more *)
Theorem C13_arange_positive_step : forall start stop step, 0 < step ->
  let n := range_len start stop step in
  (forall i, 0 <= i < n -> start + i * step < stop) /\ stop <= start + n * step.
Proof. exact arange_pos. Qed.
Theorem C13_arange_negative_step : forall start stop step, step < 0 ->
  let n := range_len start stop step in
  (forall i, 0 <= i < n -> stop < start + i * step) /\ start + n * step <= stop.
Proof. exact arange_neg. Qed.
Theorem C13_arange_elements : forall start stop step i,
  (i < Z.to_nat (range_len start stop step))%nat ->
  nth i (onnx_range start stop step) 0 = start + Z.of_nat i * step /\
  length (onnx_range start stop step) = Z.to_nat (range_len start stop step).
Proof. exact arange_length_elements. Qed.
Print Assumptions C13_arange_positive_step.

Theorem C13_eye : forall n m k i j, (i < n)%nat -> (j < m)%nat ->
  get (ndx_eye n m k) [i; j] 0 = if (Z.of_nat j - Z.of_nat i =? k) then 1 else 0.
Proof. exact eye_spec. Qed.
Theorem C13_full : forall sh v idx, Base.Tensor.in_bounds sh idx -> get (ndx_full sh v) idx 0 = v /\ shape (ndx_full sh v) = sh.
Proof. exact full_spec. Qed.

Example C13_ex : ndx_arange 5 (Some (-4)) (-3) = [5; 2; -1] /\ ndx_arange 4 None 1 = [0; 1; 2; 3] /\ ndx_arange 3 (Some 3) 2 = [].
Proof. repeat split; reflexivity. Qed.
