(* Props/C15.v — the annotations ndonnx writes by hand (unsafe_reshape to an all-None shape of a
   given rank in getitem / getitem_null) claim a RANK only; these lemmas show the claimed rank is
   the run-time rank of the operator's result.  An all-None shape can never contradict an extent. *)
From Coq Require Import List Arith ZArith Bool Lia.
From ND Require Import Base.Tensor Ndx.GetItem Ndx.Layout.
Import ListNotations.

Lemma length_replace_nth {A} k (v : A) l : length (replace_nth k v l) = length l.
Proof. revert k; induction l as [|x r IH]; intros k; destruct k; simpl; auto. Qed.
Lemma length_remove_nth {A} k (l : list A) : k < length l -> length (remove_nth k l) = length l - 1.
Proof. revert k; induction l as [|x r IH]; intros k H; destruct k; simpl in *; try lia. rewrite IH by lia. lia. Qed.

(* Slice (and Gather with an index vector) keeps the rank: `tuple(None for i in range(ndim))` *)
Theorem C15_slice_keeps_rank : forall A (t : tensor A) axis sel d, rank (t_select t axis sel d) = rank t.
Proof. intros. unfold rank, t_select; simpl. apply length_replace_nth. Qed.
(* Gather with a scalar index drops exactly one axis *)
Theorem C15_scalar_gather_drops_one_axis : forall A (t : tensor A) axis c d, axis < rank t -> rank (t_drop t axis c d) = rank t - 1.
Proof. intros. unfold rank, t_drop in *; simpl. now apply length_remove_nth. Qed.
(* static ndim == run-time rank for every tensor built by `tab` *)
Theorem C15_shape_of_tab : forall A sh (f : list nat -> A), shape (tab sh f) = sh.
Proof. reflexivity. Qed.
Print Assumptions C15_slice_keeps_rank.

Example C15_ex : rank (t_select (tab [2; 3] (fun _ => 0%Z)) 1 [0; 2] 0%Z) = 2.
Proof. reflexivity. Qed.
