(* Props/C19.v — spox interop and eager_propagate on the object machine. *)
From Coq Require Import List Arith Bool.
From ND Require Import Machine.Machine Machine.MachineFacts Machine.MachineSim.
Import ListNotations.

Section P.
  Variables (val opid : Type) (sem : opid -> list val -> option val).

  (* from_spox_var(a.spox_var()): a new array around the same graph variable, no value retained *)
  Definition from_spox (c : carr val opid) : carr val opid := {| var := var val opid c; eager := None |}.

  Theorem C19_spox_round_trip_denotes_the_same_value : forall env c,
    geval val opid sem env (var val opid (from_spox c)) = geval val opid sem env (var val opid c)
    /\ eager val opid (from_spox c) = None.
  Proof. intros. split; reflexivity. Qed.

  (* argument trees of a wrapped user function: lists, tuples, dicts (as lists), slices, arrays, others *)
  Inductive atree := ACore (l : nat) | ASeq (xs : list atree) | ASlice (a b c : atree) | AOther.

  Fixpoint leaves (t : atree) : list nat :=
    match t with
    | ACore l => [l]
    | ASeq xs => (fix go (l : list atree) := match l with [] => [] | x :: r => leaves x ++ go r end) xs
    | ASlice a b c => leaves a ++ leaves b ++ leaves c
    | AOther => []
    end.

  (* _aggregate_arguments: constant_inputs starts True and is cleared by every leaf without a value *)
  Definition has_value (h : heap val opid) (l : nat) : bool :=
    match nth_error h l with Some c => match eager val opid c with Some _ => true | None => false end | None => false end.
  Fixpoint constant_inputs (h : heap val opid) (t : atree) (acc : bool) : bool :=
    match t with
    | ACore l => acc && has_value h l
    | ASeq xs => (fix go (l : list atree) (acc : bool) := match l with [] => acc | x :: r => go r (constant_inputs h x acc) end) xs acc
    | ASlice a b c => constant_inputs h c (constant_inputs h b (constant_inputs h a acc))
    | AOther => acc
    end.

  (* the wrapper evaluates eagerly exactly when every array leaf, at any nesting depth, holds data *)
  Fixpoint constant_inputs_spec (t : atree) : forall h acc,
    constant_inputs h t acc = acc && forallb (has_value h) (leaves t).
  Proof.
    destruct t as [l | xs | a b c |]; intros h acc; simpl.
    - now rewrite andb_true_r.
    - revert acc. induction xs as [|x r IH]; intros acc; simpl; [now rewrite andb_true_r|].
      rewrite IH, (constant_inputs_spec x), forallb_app, andb_assoc. reflexivity.
    - rewrite (constant_inputs_spec c), (constant_inputs_spec b), (constant_inputs_spec a), !forallb_app, !andb_assoc. reflexivity.
    - now rewrite andb_true_r.
  Qed.

  Theorem C19_wrapped_function_folds_iff_all_leaves_hold_data : forall t h,
    constant_inputs h t true = forallb (has_value h) (leaves t).
  Proof. intros. now rewrite constant_inputs_spec. Qed.
End P.
Print Assumptions C19_wrapped_function_folds_iff_all_leaves_hold_data.
Print Assumptions C19_spox_round_trip_denotes_the_same_value.
