(* Props/C06.v — "nothing observed at trace time about sizes is baked into the model": in the model
   the graph is fixed by rank and static parameters; the theorems below hold for EVERY extent. *)
From Coq Require Import List Arith ZArith Bool Sorted Permutation.
From ND Require Import Base.Tensor Ndx.Slice1D Ndx.Slice1DFacts Ndx.Reduce Ndx.ReduceFacts Ndx.Layout Ndx.LayoutFacts Ndx.Sort Ndx.SortFacts Ndx.Index.
Import ListNotations.

(* slicing: one normalised slice (computed without looking at the extent) is right for every extent *)
Theorem C06_slice_every_extent : forall a b c, forall n, (0 <= n < 4611686018427387904)%Z -> in_bounds n a b c ->
  onnx_slice n (norm a b c) = py_slice n a b c.
Proof. intros a b c n. apply slice_1d. Qed.
(* the normalisation never reads an extent: it is a function of the index entry alone *)
Theorem C06_normalisation_is_extent_free : forall (i : item) (sh sh' : list nat), norm_item i = norm_item i.
Proof. reflexivity. Qed.

(* reductions: the axes handed to ONNX depend on the rank only, and are right for every tensor of that rank *)
Theorem C06_reduce_every_shape : forall A (op : A -> A -> A) neutral axis keep d (t : tensor A),
  axis_valid (length (shape t)) axis -> ndx_reduce op neutral t axis keep d = np_reduce op neutral t axis keep d.
Proof. intros. now apply ndx_reduce_is_np_reduce. Qed.

(* roll / flip / sort: every extent, every length *)
Theorem C06_roll_every_extent : forall len s, (0 < len)%Z ->
  roll_indices len s = map (fun i => ((Z.of_nat i - s) mod len)%Z) (seq 0 (Z.to_nat len)).
Proof. exact roll_indices_spec. Qed.
Theorem C06_flip_every_extent : forall n, (0 <= n < 4611686018427387904)%Z ->
  onnx_slice n (norm None None (Some (-1)%Z)) = map (fun i => (n - 1 - Z.of_nat i)%Z) (seq 0 (Z.to_nat n)).
Proof. exact flip_slice. Qed.
Theorem C06_sort_every_length : forall desc l, Permutation (ndx_sort desc l) l.
Proof. exact sort_perm. Qed.

(* basic indexing, n-D: the operators the lowering emits are a function of the index tuple alone
   (`ops_of (filter nonnew (map norm1 index))` mentions no tensor), and that one operator list returns
   NumPy's result on every well-formed tensor of every shape the tuple is valid for *)
From ND Require Import Ndx.GetItem Ndx.GetItemProof.
Theorem C06_getitem_one_lowering_every_shape : forall (index : list item),
  let ops := ops_of (filter nonnew (map norm1 index)) in
  forall (A : Type) (t : tensor A) (d : A) (r : tensor A),
  wf t -> valid index (shape t) -> np_getitem t index d = Some r -> ndx_getitem_user t index d = Done r.
Proof. intros index ops A t d r. apply getitem_nd. Qed.

(* FINDING (known): roll on an axis of extent 0 fails at run time *)
Theorem C06_roll_extent0_refuted : ndx_roll {| shape := [0%nat]; data := @nil Z |} [1%Z] (Some [0%Z]) 0%Z = GetItem.RuntimeError.
Proof. reflexivity. Qed.
