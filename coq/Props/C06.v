(* Props/C06.v — "nothing observed at trace time about sizes is baked into the model": in the model
   the graph is fixed by rank and static parameters; the theorems below hold for EVERY extent. *)
From Coq Require Import List Arith ZArith Bool Sorted Permutation.
From ND Require Import Base.Tensor Ndx.Slice1D Ndx.Slice1DFacts Ndx.Reduce Ndx.ReduceFacts Ndx.Layout Ndx.LayoutFacts Ndx.Sort Ndx.SortFacts Ndx.Index.
Import ListNotations.

(* slicing: one normalised slice (computed without looking at the extent) is right for every extent *)
Theorem C06_slice_every_extent : forall a b c, forall n, (0 <= n < 4611686018427387904)%Z -> in_bounds n a b c ->
  onnx_slice n (norm a b c) = py_slice n a b c.
Proof. intros a b c n. apply slice_1d. Qed.
(* the normalisation never reads an extent: it is a function of the index entry alone *)
Theorem C06_normalisation_is_extent_free : forall (i : item) (sh sh' : list nat), norm_item i = norm_item i.
Proof. reflexivity. Qed.

(* reductions: the axes handed to ONNX depend on the rank only, and are right for every tensor of that rank *)
Theorem C06_reduce_every_shape : forall A (op : A -> A -> A) neutral axis keep d (t : tensor A),
  axis_valid (length (shape t)) axis -> ndx_reduce op neutral t axis keep d = np_reduce op neutral t axis keep d.
Proof. intros. now apply ndx_reduce_is_np_reduce. Qed.

(* roll / flip / sort: every extent, every length *)
Theorem C06_roll_every_extent : forall len s, (0 < len)%Z ->
  roll_indices len s = map (fun i => ((Z.of_nat i - s) mod len)%Z) (seq 0 (Z.to_nat len)).
Proof. exact roll_indices_spec. Qed.
Theorem C06_flip_every_extent : forall n, (0 <= n < 4611686018427387904)%Z ->
  onnx_slice n (norm None None (Some (-1)%Z)) = map (fun i => (n - 1 - Z.of_nat i)%Z) (seq 0 (Z.to_nat n)).
Proof. exact flip_slice. Qed.
Theorem C06_sort_every_length : forall desc l, Permutation (ndx_sort desc l) l.
Proof. exact sort_perm. Qed.

(* basic indexing, n-D: the operators the lowering emits are a function of the index tuple alone
   (`ops_of (filter nonnew (map norm1 index))` mentions no tensor), and that one operator list returns
   NumPy's result on every well-formed tensor of every shape the tuple is valid for *)
From ND Require Import Ndx.GetItem Ndx.GetItemProof.
Theorem C06_getitem_one_lowering_every_shape : forall (index : list item),
  let ops := ops_of (filter nonnew (map norm1 index)) in
  forall (A : Type) (t : tensor A) (d : A) (r : tensor A),
  wf t -> valid index (shape t) -> np_getitem t index d = Some r -> ndx_getitem_user t index d = Done r.
Proof. intros index ops A t d r. apply getitem_nd. Qed.

(* FINDING (known): roll on an axis of extent 0 fails at run time *)
Theorem C06_roll_extent0_refuted : ndx_roll {| shape := [0%nat]; data := @nil Z |} [1%Z] (Some [0%Z]) 0%Z = GetItem.RuntimeError.
Proof. reflexivity. Qed.

(* the statements below quantify over every tensor / every extent with the emitted graph fixed by rank and
   static parameters (shifts, axes, keepdims): *)
From ND Require Import Ndx.RollProof Ndx.ReduceMore Ndx.ReduceMoreFacts Ndx.NonzeroFacts.
(* roll, n-D: one list of (shift, axis) pairs is right for every tensor whose rolled axes are non-empty *)
Theorem C06_roll_nd_every_shape : forall (shifts axs : list Z), length shifts = length axs ->
  forall (A : Type) (t : tensor A) (d : A), wf t -> Forall (step_ok (shape t)) (combine shifts axs) ->
  ndx_roll t shifts (Some axs) d = GetItem.Done (tab (shape t) (fun idx => get t (roll_src (shape t) (combine shifts axs) idx) d)).
Proof. intros shifts axs H A t d Hw Hs. now apply ndx_roll_nd. Qed.
(* all / any: every extent, the empty reduction included (no static-size test survives in the graph) *)
Theorem C06_all_every_shape : forall axis keep (t : tensor Z), axis_valid (length (shape t)) axis -> ndx_all t axis keep = np_all t axis keep.
Proof. intros. now apply ndx_all_is_np_all. Qed.
Theorem C06_any_every_shape : forall axis keep (t : tensor Z), axis_valid (length (shape t)) axis -> ndx_any t axis keep = np_any t axis keep.
Proof. intros. now apply ndx_any_is_np_any. Qed.
(* cumulative_sum and nonzero: every extent *)
Theorem C06_cumsum_every_shape : forall ax (t : tensor Z) idx, (ax < length (shape t))%nat -> Tensor.in_bounds (shape t) idx ->
  get (onnx_cumsum t ax) idx 0%Z = zsum (map (fun i => get t (replace_nth ax i idx) 0%Z) (seq 0 (S (nth ax idx 0%nat)))).
Proof. intros. now apply onnx_cumsum_spec. Qed.
Theorem C06_nonzero_every_shape : forall sh data, ndx_nonzero sh data = nonzero_coords sh data (all_idx sh).
Proof. exact ndx_nonzero_is_numpy. Qed.
