(* Props/C03.v — only statements closed by `exact`, each followed by Print Assumptions. *)
From Coq Require Import List Bool Permutation.
From ND Require Import Base.Dtype Base.DtypeFacts.
Import ListNotations.

(* n-ary promotion, lists of ANY length: independent of argument order ... *)
Theorem C03_result_type_order_independent :
  forall l l', Permutation l l' -> result_type l = result_type l'.
Proof. exact result_type_perm. Qed.
Print Assumptions C03_result_type_order_independent.

(* ... and of multiplicity (ndonnx iterates a set of the observed dtypes) *)
Theorem C03_result_type_multiplicity_independent :
  forall x l, result_type (x :: x :: l) = result_type (x :: l).
Proof. exact result_type_dup. Qed.
Print Assumptions C03_result_type_multiplicity_independent.

Theorem C03_commutative : forall a b, result_type [a; b] = result_type [b; a].
Proof. exact result_type_comm. Qed.
Print Assumptions C03_commutative.

(* associative, and equal to the 3-ary form, for every triple of built-in dtypes that does
   not mix signed, unsigned and floating kinds *)
Theorem C03_associative_under_guard :
  forall a b c, a <> DStruct -> b <> DStruct -> c <> DStruct -> core3 a b c = false ->
  bind_rt (rt2 b c) (fun bc => rt2 a bc) = result_type [a; b; c] /\
  bind_rt (rt2 a b) (fun ab => rt2 ab c) = result_type [a; b; c].
Proof. exact assoc_guarded. Qed.
Print Assumptions C03_associative_under_guard.

(* the guard is needed: NumPy-style cross-kind promotion is not associative there *)
Theorem C03_guard_is_tight :
  bind_rt (rt2 (DCore CI16) (DCore CU16)) (fun ab => rt2 ab (DCore CF32)) = Ok (DCore CF64) /\
  bind_rt (rt2 (DCore CU16) (DCore CF32)) (fun bc => rt2 (DCore CI16) bc) = Ok (DCore CF32).
Proof. exact nonassoc_witness. Qed.

Theorem C03_nullable_iff_some_operand_nullable :
  forall ds d, result_type ds = Ok d ->
  (is_nullable d = true <-> exists x, In x ds /\ is_nullable x = true).
Proof. exact result_type_nullable. Qed.
Print Assumptions C03_nullable_iff_some_operand_nullable.

Theorem C03_python_scalar_keeps_dtype_within_kind :
  forall d c s, core_of d = Some c -> same_kind_scalar c s = true -> promote_array_scalar d s = Ok d.
Proof. exact scalar_within_kind. Qed.
Print Assumptions C03_python_scalar_keeps_dtype_within_kind.

Theorem C03_strings_never_promote_with_non_strings_in_operators :
  forall ds t, promote_arrays ds = Ok t -> forall d, In d ds -> is_str_dtype d = is_str_dtype t.
Proof. exact promote_arrays_string_isolated. Qed.
Print Assumptions C03_strings_never_promote_with_non_strings_in_operators.

Theorem C03_strings_never_promote_with_scalars :
  forall d s t, promote_array_scalar d s = Ok t ->
  is_str_dtype d = is_str_dtype t /\ is_str (scalar_core s) = is_str_dtype t.
Proof. exact promote_scalar_string_isolated. Qed.
Print Assumptions C03_strings_never_promote_with_scalars.

(* ... and the public result_type refuses them as well (repaired: fixed C03-result-type-promotes-strings) *)
Theorem C03_result_type_never_promotes_strings_with_non_strings :
  forall ds t, result_type ds = Ok t -> forall d, In d ds -> is_str_dtype d = is_str_dtype t.
Proof. exact result_type_string_isolated. Qed.
Print Assumptions C03_result_type_never_promotes_strings_with_non_strings.

(* non-vacuity *)
Example C03_ex1 : result_type [DNull CI8; DCore CU8; DCore CI8] = Ok (DNull CI16).
Proof. reflexivity. Qed.
Example C03_ex2 : core3 (DCore CI8) (DNull CU8) (DCore CI64) = false.
Proof. reflexivity. Qed.
