(* Props/C05.v *)
From Coq Require Import List String Bool.
From ND Require Import Base.Dtype Ndx.Build Ndx.BuildFacts.
Import ListNotations.
Open Scope string_scope.

(* for arbitrarily nested struct dtypes: the tensors the model exposes for an array (collect_vars)
   are exactly the fully qualified names a consumer derives from the dtype (_extract_output_names),
   in the same order, with the same element types *)
Theorem C05_exposed_tensors_match_the_dtype : forall a n d, typed a d = true ->
  map (fun p => (fst p, snd (snd p))) (vars n a) = names n d.
Proof. exact vars_names. Qed.
Print Assumptions C05_exposed_tensors_match_the_dtype.

Theorem C05_builtin_interface : forall n c,
  names n (Leaf c) = [(n, c)] /\
  names n (Struct [("values", Leaf c); ("null", Leaf CBool)]) = [(n ++ "_values", c); (n ++ "_null", CBool)].
Proof. exact builtin_names. Qed.

Theorem C05_schema_names_injective : forall a b, a <> DStruct -> b <> DStruct -> schema_name a = schema_name b -> a = b.
Proof. exact schema_name_injective. Qed.

(* non-vacuity: a user struct with a nested nullable field *)
Example C05_ex :
  names "p" (Struct [("lo", Leaf CI64); ("hi", Struct [("values", Leaf CF64); ("null", Leaf CBool)])])
  = [("p_lo", CI64); ("p_hi_values", CF64); ("p_hi_null", CBool)].
Proof. reflexivity. Qed.

(* ---- values: flatten by the schema, reassemble by the schema ---------------------------------------------------------- *)
(* for arbitrarily nested struct dtypes and any element type: what _deconstruct_inputs/_flatten produces, looked up and
   reassembled the way _assemble_outputs.helper does, is the original value — whenever the flattened names (a function of the
   dtype alone) are pairwise distinct; also inside a larger table of other inputs / outputs *)
From ND Require Import Ndx.BuildRT.
Theorem C05_schema_round_trip_of_values : forall (V : Type) d n (v : vtree V) top, shaped V v d = true -> NoDup (map fst (names n d)) ->
  assemble V true top n d (flatten V n d v) = Some v.
Proof. exact schema_round_trip. Qed.
Theorem C05_schema_round_trip_in_context : forall (V : Type) d n (v : vtree V) top pre post, shaped V v d = true ->
  NoDup (map fst (pre ++ flatten V n d v ++ post)) ->
  assemble V true top n d (pre ++ flatten V n d v ++ post)%list = Some v.
Proof. exact schema_round_trip_in_context. Qed.
Theorem C05_flattened_names_depend_on_the_dtype_only : forall (V : Type) d n (v : vtree V), shaped V v d = true ->
  map fst (flatten V n d v) = map fst (names n d).
Proof. exact flatten_names. Qed.
Print Assumptions C05_schema_round_trip_of_values.
