(* Base/DtypeFacts.v — proofs about Base/Dtype.v (kept out of the model file). *)
From Coq Require Import List Bool Arith Lia Permutation.
From ND Require Import Base.Dtype.
Import ListNotations.

Lemma core_eqb_eq a b : core_eqb a b = true <-> a = b.
Proof. split; [destruct a, b; simpl; congruence | intros ->; destruct b; reflexivity]. Qed.

Lemma dtype_eqb_eq a b : dtype_eqb a b = true <-> a = b.
Proof.
  split.
  - destruct a, b; simpl; try congruence; intros H; apply core_eqb_eq in H; congruence.
  - intros ->; destruct b; simpl; auto; apply core_eqb_eq; reflexivity.
Qed.

Lemma all_core_complete c : In c all_core.
Proof. destruct c; simpl; tauto. Qed.

Lemma all_builtin_complete d : d <> DStruct -> In d all_builtin.
Proof.
  intros H; unfold all_builtin; apply in_or_app; destruct d as [c|c|]; [left|right|congruence];
    apply in_map, all_core_complete.
Qed.

(* -- the summary is a commutative idempotent monoid ------------------------------------ *)
Lemma s_join_comm a b : s_join a b = s_join b a.
Proof. unfold s_join; f_equal; auto using orb_comm, Nat.max_comm. Qed.

Lemma s_join_assoc a b c : s_join a (s_join b c) = s_join (s_join a b) c.
Proof. unfold s_join; simpl; f_equal; auto using orb_assoc, Nat.max_assoc. Qed.

Lemma s_join_idem a b : s_join a (s_join a b) = s_join a b.
Proof.
  unfold s_join; simpl; f_equal; rewrite ?Nat.max_assoc, ?Nat.max_id; auto.
  destruct (s_str a); reflexivity.
Qed.

Definition summ (cs : list core) : summary :=
  fold_right (fun c acc => s_join (s_of c) acc) s_empty cs.

Lemma summ_perm l l' : Permutation l l' -> summ l = summ l'.
Proof.
  induction 1 as [|x l l' _ IH|x y l|l l' l'' _ IH1 _ IH2]; simpl.
  - reflexivity.
  - now rewrite IH.
  - rewrite !s_join_assoc. f_equal. apply s_join_comm.
  - congruence.
Qed.

Lemma summ_dup x l : summ (x :: x :: l) = summ (x :: l).
Proof. simpl. apply s_join_idem. Qed.

Lemma summ_app l l' : summ (l ++ l') = s_join (summ l) (summ l').
Proof.
  induction l as [|x l IH]; simpl.
  - unfold s_join, s_empty; destruct (summ l'); reflexivity.
  - rewrite IH. apply s_join_assoc.
Qed.

(* n-ary NumPy promotion depends neither on order nor on multiplicity, for lists of any
   length. *)
Lemma np_result_type_perm l l' : Permutation l l' -> np_result_type l = np_result_type l'.
Proof. intros H; unfold np_result_type; fold (summ l); fold (summ l'); now rewrite (summ_perm _ _ H). Qed.

Lemma np_result_type_dup x l : np_result_type (x :: x :: l) = np_result_type (x :: l).
Proof. unfold np_result_type. fold (summ (x :: x :: l)). fold (summ (x :: l)). now rewrite summ_dup. Qed.

Lemma np_promote_comm a b : np_promote a b = np_promote b a.
Proof. apply np_result_type_perm. constructor. Qed.

(* -- cores_of / nullable flag under permutation ----------------------------------------- *)
Lemma cores_of_perm l l' : Permutation l l' ->
  match cores_of l, cores_of l' with
  | Some a, Some b => Permutation a b
  | None, None => True
  | _, _ => False
  end.
Proof.
  induction 1 as [|x l l' _ IH|x y l|l l' l'' _ IH1 _ IH2]; simpl.
  - constructor.
  - destruct (core_of x), (cores_of l), (cores_of l'); auto; try now constructor.
  - destruct (core_of x), (core_of y), (cores_of l); auto; try constructor.
  - destruct (cores_of l), (cores_of l'), (cores_of l''); auto; try contradiction.
    eapply Permutation_trans; eauto.
Qed.

Lemma existsb_perm {A} (f : A -> bool) l l' : Permutation l l' -> existsb f l = existsb f l'.
Proof.
  induction 1; simpl; auto; try congruence.
  - destruct (f x), (f y); reflexivity.
Qed.

Lemma result_type_perm l l' : Permutation l l' -> result_type l = result_type l'.
Proof.
  intros H. unfold result_type. pose proof (cores_of_perm _ _ H) as Hc.
  rewrite (existsb_perm _ _ _ H).
  destruct (cores_of l) as [a|], (cores_of l') as [b|]; try contradiction; auto.
  rewrite (np_result_type_perm _ _ Hc). unfold mixes_str. rewrite !(existsb_perm _ _ _ Hc).
  destruct a, b; auto.
  - apply Permutation_nil in Hc; discriminate.
  - apply Permutation_sym, Permutation_nil in Hc; discriminate.
Qed.

Lemma result_type_comm a b : result_type [a; b] = result_type [b; a].
Proof. apply result_type_perm. constructor. Qed.

Lemma result_type_dup x l : result_type (x :: x :: l) = result_type (x :: l).
Proof.
  unfold result_type; simpl. destruct (core_of x) as [c|]; auto.
  destruct (cores_of l) as [cs|]; auto.
  rewrite np_result_type_dup. unfold mixes_str; simpl. rewrite !orb_assoc, !orb_diag.
  destruct (is_nullable x); simpl; auto.
Qed.

(* -- nullability is opt-in and closed ------------------------------------------------------ *)
Lemma result_type_nullable ds d : result_type ds = Ok d ->
  (is_nullable d = true <-> exists x, In x ds /\ is_nullable x = true).
Proof.
  unfold result_type. destruct (cores_of ds) as [[|c cs]|]; try discriminate.
  destruct (mixes_str (c :: cs)); try discriminate.
  intros [= <-]. rewrite <- existsb_exists.
  destruct (existsb is_nullable ds); simpl; split; auto; discriminate.
Qed.

(* -- guarded associativity, all 24^3 triples, by computation ------------------------------- *)
Definition mixes3 (a b c : core) : bool :=
  let ks := [kind_of a; kind_of b; kind_of c] in
  existsb (fun k => match k with KSigned => true | _ => false end) ks &&
  existsb (fun k => match k with KUnsigned => true | _ => false end) ks &&
  existsb (fun k => match k with KFloat => true | _ => false end) ks.

Definition rt2 (a b : dtype) : outcome dtype := result_type [a; b].
Definition bind_rt (x : outcome dtype) (f : dtype -> outcome dtype) : outcome dtype :=
  match x with Ok d => f d | RaiseTE => RaiseTE | RaiseVE => RaiseVE | RaiseOther => RaiseOther end.

Definition oeqb := outcome_eqb dtype_eqb.

Definition assoc_ok (a b c : dtype) : bool :=
  oeqb (bind_rt (rt2 b c) (fun bc => rt2 a bc)) (result_type [a; b; c]) &&
  oeqb (bind_rt (rt2 a b) (fun ab => rt2 ab c)) (result_type [a; b; c]).

Definition core3 (a b c : dtype) : bool :=
  match core_of a, core_of b, core_of c with
  | Some x, Some y, Some z => mixes3 x y z
  | _, _, _ => false
  end.

Definition triples : list (dtype * dtype * dtype) :=
  flat_map (fun a => flat_map (fun b => map (fun c => (a, b, c)) all_builtin) all_builtin) all_builtin.

Lemma triples_complete a b c : a <> DStruct -> b <> DStruct -> c <> DStruct -> In (a, b, c) triples.
Proof.
  intros Ha Hb Hc. unfold triples.
  apply in_flat_map; exists a; split; [now apply all_builtin_complete|].
  apply in_flat_map; exists b; split; [now apply all_builtin_complete|].
  apply in_map; now apply all_builtin_complete.
Qed.

Lemma assoc_table : forallb (fun '(a, b, c) => core3 a b c || assoc_ok a b c) triples = true.
Proof. vm_compute. reflexivity. Qed.

Lemma oeqb_eq x y : oeqb x y = true -> x = y.
Proof.
  destruct x, y; simpl; intros H; try discriminate; auto. apply dtype_eqb_eq in H; congruence.
Qed.

Lemma assoc_guarded a b c : a <> DStruct -> b <> DStruct -> c <> DStruct -> core3 a b c = false ->
  bind_rt (rt2 b c) (fun bc => rt2 a bc) = result_type [a; b; c] /\
  bind_rt (rt2 a b) (fun ab => rt2 ab c) = result_type [a; b; c].
Proof.
  intros Ha Hb Hc Hm.
  pose proof (proj1 (forallb_forall _ _) assoc_table _ (triples_complete a b c Ha Hb Hc)) as H.
  simpl in H. rewrite Hm in H. simpl in H. unfold assoc_ok in H.
  apply andb_true_iff in H as [H1 H2]. split; now apply oeqb_eq.
Qed.

(* the guard is tight: there ARE pairwise non-associative triples among the excluded ones *)
Lemma nonassoc_witness :
  bind_rt (rt2 (DCore CI16) (DCore CU16)) (fun ab => rt2 ab (DCore CF32)) = Ok (DCore CF64) /\
  bind_rt (rt2 (DCore CU16) (DCore CF32)) (fun bc => rt2 (DCore CI16) bc) = Ok (DCore CF32).
Proof. split; reflexivity. Qed.

(* -- Python scalars ----------------------------------------------------------------------- *)
Definition same_kind_scalar (c : core) (s : pyscalar) : bool :=
  match s, kind_of c with
  | PyBool, KBool => true
  | PyInt, (KSigned | KUnsigned) => true
  | PyFloat, KFloat => true
  | PyStr, KStr => true
  | _, _ => false
  end.

Lemma scalar_within_kind d c s : core_of d = Some c -> same_kind_scalar c s = true ->
  promote_array_scalar d s = Ok d.
Proof. destruct d as [x|x|]; simpl; try discriminate; intros [= ->]; destruct c, s; simpl; try discriminate; reflexivity. Qed.

(* strings never promote with non-strings inside promote() (operators / functions) *)
Lemma promote_arrays_string_isolated ds t : promote_arrays ds = Ok t ->
  forall d, In d ds -> is_str_dtype d = is_str_dtype t.
Proof.
  unfold promote_arrays. destruct (result_type ds) as [t'| | |]; try discriminate.
  destruct (forallb _ ds) eqn:E; try discriminate. intros [= ->] d Hd.
  rewrite forallb_forall in E. specialize (E d Hd). now apply eqb_prop in E.
Qed.

Lemma promote_scalar_string_isolated d s t : promote_array_scalar d s = Ok t ->
  is_str_dtype d = is_str_dtype t /\ is_str (scalar_core s) = is_str_dtype t.
Proof.
  unfold promote_array_scalar. destruct (result_type [d]); try discriminate.
  destruct (promote_scalar_target a s) as [t'| | |]; try discriminate.
  destruct (Bool.eqb (is_str_dtype d) (is_str_dtype t')) eqn:E1; simpl; try discriminate.
  destruct (Bool.eqb (is_str (scalar_core s)) (is_str_dtype t')) eqn:E2; simpl; try discriminate.
  intros [= ->]. split; now apply eqb_prop.
Qed.

(* ... and neither does the public result_type (after the repair recorded as
   fixed: C03-result-type-promotes-strings) *)
Lemma s_str_summ cs : s_str (summ cs) = existsb is_str cs.
Proof. unfold summ. induction cs as [|c r IH]; simpl; auto. rewrite IH. destruct c; reflexivity. Qed.

Lemma np_result_is_str cs : is_str (np_result_type cs) = existsb is_str cs.
Proof.
  unfold np_result_type. fold (summ cs). rewrite <- s_str_summ. unfold s_result.
  destruct (s_str (summ cs)); [reflexivity|].
  repeat match goal with |- context [if ?b then _ else _] => destruct b end;
    unfold float_of_bits, signed_of_bits, unsigned_of_bits;
    repeat match goal with |- context [if ?b then _ else _] => destruct b end; reflexivity.
Qed.

Lemma cores_of_in ds cs d : cores_of ds = Some cs -> In d ds -> exists c, core_of d = Some c /\ In c cs.
Proof.
  revert cs. induction ds as [|x r IH]; intros cs H Hd; simpl in *; [tauto|].
  destruct (core_of x) as [c|] eqn:Ec; [|discriminate]. destruct (cores_of r) as [cs'|]; [|discriminate].
  injection H as <-. destruct Hd as [-> | Hd].
  - exists c. split; auto. now left.
  - destruct (IH cs' eq_refl Hd) as [c' [H1 H2]]. exists c'. split; auto. now right.
Qed.

Lemma result_type_string_isolated ds t : result_type ds = Ok t ->
  forall d, In d ds -> is_str_dtype d = is_str_dtype t.
Proof.
  unfold result_type. destruct (cores_of ds) as [cs|] eqn:Ec; [|discriminate].
  destruct cs as [|c0 cs0]; [discriminate|]. set (cs := c0 :: cs0) in *.
  destruct (mixes_str cs) eqn:Em; [discriminate|]. intros [= <-] d Hd.
  destruct (cores_of_in _ _ _ Ec Hd) as [c [Hc Hin]].
  assert (Ht : is_str_dtype (if existsb is_nullable ds then DNull (np_result_type cs) else DCore (np_result_type cs)) = existsb is_str cs).
  { destruct (existsb is_nullable ds); unfold is_str_dtype; simpl; apply np_result_is_str. }
  rewrite Ht. unfold is_str_dtype. rewrite Hc. unfold mixes_str in Em.
  destruct (is_str c) eqn:Es.
  - symmetry. apply existsb_exists. exists c. auto.
  - assert (H : existsb (fun c1 => negb (is_str c1)) cs = true) by (apply existsb_exists; exists c; rewrite Es; auto).
    rewrite H, andb_true_r in Em. now rewrite Em.
Qed.

Lemma into_nullable_bij c : into_nullable (DCore c) = DNull c.
Proof. reflexivity. Qed.
