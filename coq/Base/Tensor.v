(* Base/Tensor.v — executable row-major tensors.  Every data-movement operator of the model
   is `tab new_shape (fun idx => get t (reindex idx))`; the characterising lemma get_tab turns
   correctness of an operator into arithmetic on its index map. *)
From Coq Require Import List Arith Lia Bool.
Import ListNotations.

Set Implicit Arguments.

Record tensor (A : Type) := { shape : list nat; data : list A }.
Arguments shape {A} t. Arguments data {A} t.

Definition size (sh : list nat) : nat := fold_right Nat.mul 1 sh.

(* all multi-indices of a shape, row-major *)
Fixpoint all_idx (sh : list nat) : list (list nat) :=
  match sh with
  | [] => [[]]
  | n :: r => flat_map (fun i => map (cons i) (all_idx r)) (seq 0 n)
  end.

Fixpoint ravel (sh idx : list nat) : nat :=
  match sh, idx with
  | n :: r, i :: j => i * size r + ravel r j
  | _, _ => 0
  end.

Fixpoint in_bounds (sh idx : list nat) : Prop :=
  match sh, idx with
  | [], [] => True
  | n :: r, i :: j => i < n /\ in_bounds r j
  | _, _ => False
  end.

Fixpoint in_boundsb (sh idx : list nat) : bool :=
  match sh, idx with
  | [], [] => true
  | n :: r, i :: j => (i <? n) && in_boundsb r j
  | _, _ => false
  end.

Definition tab {A} (sh : list nat) (f : list nat -> A) : tensor A :=
  {| shape := sh; data := map f (all_idx sh) |}.

Definition get {A} (t : tensor A) (idx : list nat) (d : A) : A := nth (ravel (shape t) idx) (data t) d.

Definition wf {A} (t : tensor A) : Prop := length (data t) = size (shape t).

Definition tmap {A B} (f : A -> B) (t : tensor A) : tensor B := {| shape := shape t; data := map f (data t) |}.
