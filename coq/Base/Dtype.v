(* Base/Dtype.v — the 12 core + 12 nullable built-in dtypes of ndonnx, NumPy promotion by
   rule (not by table), and the model of ndonnx.result_type.  Model file: definitions only. *)
From Coq Require Import List Bool Arith.
Import ListNotations.

Inductive core :=
  | CBool | CI8 | CI16 | CI32 | CI64 | CU8 | CU16 | CU32 | CU64 | CF32 | CF64 | CStr.

Definition all_core : list core :=
  [CBool; CI8; CI16; CI32; CI64; CU8; CU16; CU32; CU64; CF32; CF64; CStr].

Definition core_eqb (a b : core) : bool :=
  match a, b with
  | CBool, CBool | CI8, CI8 | CI16, CI16 | CI32, CI32 | CI64, CI64
  | CU8, CU8 | CU16, CU16 | CU32, CU32 | CU64, CU64 | CF32, CF32 | CF64, CF64
  | CStr, CStr => true
  | _, _ => false
  end.

(* DStruct: any user-defined struct dtype (result_type / promotion refuse it). *)
Inductive dtype := DCore (c : core) | DNull (c : core) | DStruct.

Definition all_builtin : list dtype := map DCore all_core ++ map DNull all_core.

Definition dtype_eqb (a b : dtype) : bool :=
  match a, b with
  | DCore x, DCore y | DNull x, DNull y => core_eqb x y
  | DStruct, DStruct => true
  | _, _ => false
  end.

Inductive kind := KBool | KSigned | KUnsigned | KFloat | KStr.

Definition kind_of (c : core) : kind :=
  match c with
  | CBool => KBool
  | CI8 | CI16 | CI32 | CI64 => KSigned
  | CU8 | CU16 | CU32 | CU64 => KUnsigned
  | CF32 | CF64 => KFloat
  | CStr => KStr
  end.

Definition bits (c : core) : nat :=
  match c with
  | CBool => 8
  | CI8 | CU8 => 8 | CI16 | CU16 => 16 | CI32 | CU32 | CF32 => 32
  | CI64 | CU64 | CF64 => 64
  | CStr => 0
  end.

Definition is_int (c : core) : bool :=
  match kind_of c with KSigned | KUnsigned => true | _ => false end.
Definition is_signed (c : core) : bool :=
  match kind_of c with KSigned => true | _ => false end.
Definition is_unsigned (c : core) : bool :=
  match kind_of c with KUnsigned => true | _ => false end.
Definition is_float (c : core) : bool :=
  match kind_of c with KFloat => true | _ => false end.
Definition is_numeric (c : core) : bool := is_int c || is_float c.
Definition is_str (c : core) : bool := match c with CStr => true | _ => false end.

Definition is_nullable (d : dtype) : bool := match d with DNull _ => true | _ => false end.
Definition core_of (d : dtype) : option core :=
  match d with DCore c | DNull c => Some c | DStruct => None end.
Definition into_nullable (d : dtype) : dtype :=
  match d with DCore c => DNull c | d => d end.

(* ---- NumPy promotion as a monoid summary ------------------------------------------- *)
(* Every dtype contributes to five maxima; the result is a function of the maxima only.
   This is what makes n-ary promotion independent of order and multiplicity. *)
Record summary := { s_str : bool; s_f : nat; s_s : nat; s_u : nat }.

Definition s_empty : summary := {| s_str := false; s_f := 0; s_s := 0; s_u := 0 |}.

Definition s_of (c : core) : summary :=
  match kind_of c with
  | KBool     => s_empty
  | KSigned   => {| s_str := false; s_f := 0; s_s := bits c; s_u := 0 |}
  | KUnsigned => {| s_str := false; s_f := 0; s_s := 0; s_u := bits c |}
  | KFloat    => {| s_str := false; s_f := bits c; s_s := 0; s_u := 0 |}
  | KStr      => {| s_str := true; s_f := 0; s_s := 0; s_u := 0 |}
  end.

Definition s_join (a b : summary) : summary :=
  {| s_str := s_str a || s_str b; s_f := Nat.max (s_f a) (s_f b);
     s_s := Nat.max (s_s a) (s_s b); s_u := Nat.max (s_u a) (s_u b) |}.

Definition signed_of_bits (n : nat) : core :=
  if n <=? 8 then CI8 else if n <=? 16 then CI16 else if n <=? 32 then CI32 else CI64.
Definition unsigned_of_bits (n : nat) : core :=
  if n <=? 8 then CU8 else if n <=? 16 then CU16 else if n <=? 32 then CU32 else CU64.
Definition float_of_bits (n : nat) : core := if n <=? 32 then CF32 else CF64.

Definition s_result (s : summary) : core :=
  if s_str s then CStr
  else if 0 <? s_f s then
    (* integers of more than 16 bits need float64 *)
    let need := if 16 <? Nat.max (s_s s) (s_u s) then 64 else 0 in
    float_of_bits (Nat.max (s_f s) need)
  else if (s_s s =? 0) && (s_u s =? 0) then CBool
  else if s_s s =? 0 then unsigned_of_bits (s_u s)
  else if s_u s =? 0 then signed_of_bits (s_s s)
  else if s_u s <? s_s s then signed_of_bits (s_s s)
  else if 64 <=? s_u s then CF64
  else signed_of_bits (2 * s_u s).

Definition np_result_type (cs : list core) : core :=
  s_result (fold_right (fun c acc => s_join (s_of c) acc) s_empty cs).

Definition np_promote (a b : core) : core := np_result_type [a; b].

(* ---- ndonnx.result_type ----------------------------------------------------------- *)
Inductive outcome (A : Type) :=
  | Ok (a : A)
  | RaiseTE          (* TypeError family: TypeError, UnsupportedOperationError, CastError *)
  | RaiseVE          (* ValueError *)
  | RaiseOther.      (* anything else *)
Arguments Ok {A} a. Arguments RaiseTE {A}. Arguments RaiseVE {A}. Arguments RaiseOther {A}.

Fixpoint cores_of (ds : list dtype) : option (list core) :=
  match ds with
  | [] => Some []
  | d :: r => match core_of d, cores_of r with
              | Some c, Some cs => Some (c :: cs)
              | _, _ => None
              end
  end.

(* ndonnx._funcs.result_type: struct dtypes other than the built-in nullables raise
   TypeError; strings together with non-strings raise TypeError; no argument at all reaches
   np.result_type() which raises ValueError. *)
Definition mixes_str (cs : list core) : bool := existsb is_str cs && existsb (fun c => negb (is_str c)) cs.
Definition result_type (ds : list dtype) : outcome dtype :=
  match cores_of ds with
  | None => RaiseTE
  | Some [] => RaiseVE
  | Some cs =>
      if mixes_str cs then RaiseTE else
      let r := DCore (np_result_type cs) in
      Ok (if existsb is_nullable ds then into_nullable r else r)
  end.

Definition outcome_eqb {A} (eqb : A -> A -> bool) (x y : outcome A) : bool :=
  match x, y with
  | Ok a, Ok b => eqb a b
  | RaiseTE, RaiseTE | RaiseVE, RaiseVE | RaiseOther, RaiseOther => true
  | _, _ => false
  end.

(* ---- Python / NumPy scalars in ndonnx._utility.promote ------------------------------ *)
Inductive pyscalar := PyBool | PyInt | PyFloat | PyStr.

(* the three isinstance branches, as written (including `not ... not in`) *)
Definition promote_scalar_target (target : dtype) (s : pyscalar) : outcome dtype :=
  let isfl := match core_of target with Some c => is_float c | None => false end in
  let isnum := match core_of target with Some c => is_numeric c | None => false end in
  let isb := match target with DCore CBool | DNull CBool => true | _ => false end in
  match s with
  | PyFloat => if isfl then Ok target else result_type [target; DCore CF64]
  | PyBool => if isb then result_type [target; DCore CBool]
              else if isnum then Ok target else result_type [target; DCore CI64]
  | PyInt => if isnum then Ok target else result_type [target; DCore CI64]
  | PyStr => Ok target
  end.

Definition scalar_core (s : pyscalar) : core :=
  match s with PyBool => CBool | PyInt => CI64 | PyFloat => CF64 | PyStr => CStr end.

Definition is_str_dtype (d : dtype) : bool :=
  match core_of d with Some c => is_str c | None => false end.

(* promote(array of dtype d, python scalar s): dtype every operand is cast to *)
Definition promote_array_scalar (d : dtype) (s : pyscalar) : outcome dtype :=
  match result_type [d] with
  | Ok t0 =>
      match promote_scalar_target t0 s with
      | Ok t =>
          (* string check on the array operand, then on the scalar operand *)
          if negb (Bool.eqb (is_str_dtype d) (is_str_dtype t)) then RaiseTE
          else if negb (Bool.eqb (is_str (scalar_core s)) (is_str_dtype t)) then RaiseTE
          else Ok t
      | e => e
      end
  | e => e
  end.

(* promote(array, array) *)
Definition promote_arrays (ds : list dtype) : outcome dtype :=
  match result_type ds with
  | Ok t => if forallb (fun d => Bool.eqb (is_str_dtype d) (is_str_dtype t)) ds
            then Ok t else RaiseTE
  | e => e
  end.
