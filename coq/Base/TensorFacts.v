From Coq Require Import List Arith Lia Bool.
From ND Require Import Base.Tensor.
Import ListNotations.

Lemma in_boundsb_spec sh idx : in_boundsb sh idx = true <-> in_bounds sh idx.
Proof.
  revert idx; induction sh as [|n r IH]; destruct idx as [|i j]; simpl; try tauto; try (split; [discriminate|tauto]).
  rewrite andb_true_iff, Nat.ltb_lt, IH. tauto.
Qed.

Lemma length_all_idx sh : length (all_idx sh) = size sh.
Proof.
  induction sh as [|n r IH]; simpl; auto.
  assert (H : forall l, length (flat_map (fun i => map (cons i) (all_idx r)) l) = length l * size r).
  { induction l as [|x l IHl]; simpl; auto. rewrite app_length, map_length, IH, IHl. lia. }
  rewrite H, seq_length. reflexivity.
Qed.

Lemma nth_flat_map_block {A} (blk : nat -> list A) (m : nat) (d : A) :
  (forall i, length (blk i) = m) ->
  forall n s i k, i < n -> k < m ->
  nth (i * m + k) (flat_map blk (seq s n)) d = nth k (blk (s + i)) d.
Proof.
  intros Hm. induction n as [|n IH]; intros s i k Hi Hk; [lia|]. simpl.
  destruct i as [|i].
  - simpl. rewrite app_nth1 by (rewrite Hm; lia). now rewrite Nat.add_0_r.
  - rewrite app_nth2 by (rewrite Hm; simpl; lia). rewrite Hm.
    replace (S i * m + k - m) with (i * m + k) by (simpl; lia).
    rewrite IH by lia. f_equal. f_equal. lia.
Qed.

Lemma ravel_lt sh idx : in_bounds sh idx -> ravel sh idx < size sh.
Proof.
  revert idx; induction sh as [|n r IH]; destruct idx as [|i j]; simpl; try tauto; try lia.
  intros [Hi Hj]. specialize (IH j Hj). nia.
Qed.

Lemma nth_all_idx sh idx : in_bounds sh idx -> nth (ravel sh idx) (all_idx sh) [] = idx.
Proof.
  revert idx; induction sh as [|n r IH]; destruct idx as [|i j]; simpl; try tauto.
  intros [Hi Hj].
  rewrite (nth_flat_map_block (fun i => map (cons i) (all_idx r)) (size r)).
  - simpl.
    rewrite nth_indep with (d' := (cons i) []) by (rewrite map_length, length_all_idx; now apply ravel_lt).
    rewrite map_nth. f_equal. now apply IH.
  - intros. now rewrite map_length, length_all_idx.
  - exact Hi.
  - now apply ravel_lt.
Qed.

(* THE characterising lemma *)
Theorem get_tab {A} sh (f : list nat -> A) idx d : in_bounds sh idx -> get (tab sh f) idx d = f idx.
Proof.
  intros H. unfold get, tab; simpl.
  rewrite nth_indep with (d' := f []) by (rewrite map_length, length_all_idx; now apply ravel_lt).
  rewrite map_nth. f_equal. now apply nth_all_idx.
Qed.

Lemma wf_tab {A} sh (f : list nat -> A) : wf (tab sh f).
Proof. unfold wf, tab; simpl. now rewrite map_length, length_all_idx. Qed.

Lemma in_all_idx sh idx : In idx (all_idx sh) <-> in_bounds sh idx.
Proof.
  revert idx; induction sh as [|n r IH]; intros idx; simpl.
  - destruct idx; simpl; split; auto; try tauto. intros [H|[]]; discriminate.
  - rewrite in_flat_map. split.
    + intros [i [Hi Hm]]. apply in_map_iff in Hm as [j [<- Hj]]. apply in_seq in Hi. split; [lia|now apply IH].
    + destruct idx as [|i j]; [tauto|]. intros [Hi Hj]. exists i. split; [apply in_seq; lia|].
      apply in_map. now apply IH.
Qed.

(* two well-formed tensors are equal iff they have the same shape and agree on all in-bounds indices *)
Lemma tab_ext {A} sh (f g : list nat -> A) : (forall idx, in_bounds sh idx -> f idx = g idx) -> tab sh f = tab sh g.
Proof.
  intros H. unfold tab. f_equal. apply map_ext_in. intros idx Hi. apply H. now apply in_all_idx.
Qed.

(* ---- row-major enumeration: the k-th multi-index ravels to k -------------------------------- *)
Lemma flat_map_seq_blocks m n s : flat_map (fun i => seq (i * m) m) (seq s n) = seq (s * m) (n * m).
Proof.
  revert s. induction n as [|n IH]; intros s; simpl; auto.
  rewrite IH. replace (S s * m) with (s * m + m) by lia. now rewrite <- seq_app.
Qed.

Lemma map_flat_map {A B C} (f : B -> C) (g : A -> list B) l : map f (flat_map g l) = flat_map (fun x => map f (g x)) l.
Proof. induction l as [|x l IH]; simpl; auto. now rewrite map_app, IH. Qed.

Lemma map_add_seq b m : map (fun k => b + k) (seq 0 m) = seq b m.
Proof.
  revert b. induction m as [|m IH]; intros b; simpl; auto. rewrite Nat.add_0_r. f_equal.
  rewrite <- seq_shift, map_map. rewrite <- (IH (S b)). apply map_ext. intros k. lia.
Qed.

Lemma ravel_all_idx sh : map (ravel sh) (all_idx sh) = seq 0 (size sh).
Proof.
  induction sh as [|n r IH]; simpl; auto.
  rewrite map_flat_map.
  transitivity (flat_map (fun i => seq (i * size r) (size r)) (seq 0 n)).
  - apply flat_map_ext. intros i. rewrite map_map. simpl.
    rewrite <- (map_map (ravel r) (fun k => i * size r + k)), IH. apply map_add_seq.
  - now rewrite flat_map_seq_blocks.
Qed.

(* a well-formed tensor is determined by its shape and its elements *)
Lemma map_nth_seq {A} (l : list A) d : map (fun k => nth k l d) (seq 0 (length l)) = l.
Proof.
  induction l as [|x l IH]; simpl; auto. f_equal. rewrite <- seq_shift, map_map. exact IH.
Qed.

Theorem tab_get_id {A} (t : tensor A) d : wf t -> tab (shape t) (fun idx => get t idx d) = t.
Proof.
  intros H. unfold tab, get. destruct t as [sh dat]; simpl in *. f_equal.
  rewrite <- (map_map (ravel sh) (fun k => nth k dat d)), ravel_all_idx.
  unfold wf in H; simpl in H. rewrite <- H. apply map_nth_seq.
Qed.
