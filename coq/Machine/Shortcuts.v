(* Machine/Shortcuts.v — the value-dependent shortcuts of logical_and / logical_or are NEUTRAL:
   when an operand is a single True (resp. False) whose rank does not exceed the other operand's,
   the broadcasting And (resp. Or) kernel returns the other operand unchanged.  This discharges
   the hypothesis `neutral` of C01_sim for these two sites (with `sem` instantiated by t_and/t_or). *)
From Coq Require Import List Arith Bool Lia.
From ND Require Import Base.Tensor Base.TensorFacts Ndx.GetItem Ndx.Layout.
Import ListNotations.
Local Open Scope nat_scope.

Definition t_bin (f : bool -> bool -> bool) (x y : tensor bool) : option (tensor bool) :=
  match broadcast_shape (shape x) (shape y) with
  | Some sh => Some (tab sh (fun idx => f (get (t_expand x sh false) idx false) (get (t_expand y sh false) idx false)))
  | None => None
  end.
Definition t_and := t_bin andb.
Definition t_or := t_bin orb.

Definition scalar_like (x : tensor bool) (b : bool) : Prop :=
  Forall (fun n => n = 1) (shape x) /\ data x = [b].

Lemma bshape_ones o l : Forall (fun n => n = 1) o -> length o <= length l -> bshape o l = Some l.
Proof.
  intros Ho. revert l. induction Ho as [|x o Hx _ IH]; intros l Hl; simpl.
  - destruct l; reflexivity.
  - destruct l as [|y l]; simpl in Hl; [lia|]. subst x. rewrite IH by lia.
    destruct (Nat.eqb 1 y) eqn:E; [apply Nat.eqb_eq in E; now subst|reflexivity].
Qed.

Lemma broadcast_scalar_like sx sy : Forall (fun n => n = 1) sx -> length sx <= length sy -> broadcast_shape sx sy = Some sy.
Proof.
  intros H Hl. unfold broadcast_shape. rewrite bshape_ones.
  - now rewrite rev_involutive.
  - now apply Forall_rev.
  - now rewrite !rev_length.
Qed.

(* expanding a tensor to its own shape reads the same element *)
Lemma expand_self_index sh idx k : in_bounds sh idx ->
  map (fun p => if Nat.eqb (snd p) 1 then 0 else nth (fst p - k) idx 0) (enumerate_from k sh) = idx.
Proof.
  revert idx k. induction sh as [|n r IH]; intros [|i j] k H; simpl in *; try tauto.
  destruct H as [Hi Hj]. rewrite Nat.sub_diag. simpl. f_equal.
  - destruct (Nat.eqb n 1) eqn:E; auto. apply Nat.eqb_eq in E. lia.
  - transitivity (map (fun p => if Nat.eqb (snd p) 1 then 0 else nth (fst p - S k) j 0) (enumerate_from (S k) r)); [|now apply IH].
    apply map_ext_in. intros [a b] Hin. simpl.
    destruct (Nat.eqb b 1); auto.
    assert (S k <= a). { clear -Hin. revert k Hin. induction r as [|x r IHr]; intros k Hin; simpl in *; [tauto|]. destruct Hin as [H | H]; [inversion H; lia|]. apply IHr in H. lia. }
    replace (a - k) with (S (a - S k)) by lia. reflexivity.
Qed.

Lemma get_expand_self (y : tensor bool) idx : in_bounds (shape y) idx -> get (t_expand y (shape y) false) idx false = get y idx false.
Proof.
  intros H. unfold t_expand. rewrite get_tab by exact H. unfold rank. rewrite Nat.sub_diag. simpl.
  f_equal. transitivity (map (fun p => if Nat.eqb (snd p) 1 then 0 else nth (fst p - 0) idx 0) (enumerate_from 0 (shape y))); [|now apply expand_self_index].
  apply map_ext. intros [a b]. simpl. now rewrite Nat.sub_0_r.
Qed.

Lemma ravel_zeros {A} sh (l : list A) : Forall (fun n => n = 1) sh -> ravel sh (map (fun _ => 0) l) = 0.
Proof.
  intros H. revert l. induction H as [|x sh Hx _ IH]; intros l; simpl.
  - destruct l; reflexivity.
  - destruct l as [|a l]; simpl; auto.
Qed.

Lemma enumerate_snd_in {A} k (l : list A) a n : In (a, n) (enumerate_from k l) -> In n l.
Proof.
  revert k. induction l as [|y l IH]; intros k H; simpl in *; [tauto|].
  destruct H as [H | H]; [inversion H; auto | right; eauto].
Qed.

Lemma get_expand_scalar_like (x : tensor bool) b sh idx : scalar_like x b -> in_bounds sh idx ->
  get (t_expand x sh false) idx false = b.
Proof.
  intros [Hs Hd] H. unfold t_expand. rewrite get_tab by exact H. unfold get. rewrite Hd.
  assert (E : map (fun p : nat * nat => if Nat.eqb (snd p) 1 then 0 else nth (length sh - rank x + fst p) idx 0) (enumerate_from 0 (shape x))
              = map (fun _ => 0) (enumerate_from 0 (shape x))).
  { apply map_ext_in. intros [a n] Hin. simpl.
    assert (n = 1). { apply enumerate_snd_in in Hin. rewrite Forall_forall in Hs. now apply Hs. }
    subst. reflexivity. }
  rewrite E, ravel_zeros by exact Hs. reflexivity.
Qed.

(* logical_and: a single True of rank <= rank y is neutral *)
Theorem and_true_neutral x y : scalar_like x true -> length (shape x) <= length (shape y) -> wf y -> t_and x y = Some y.
Proof.
  intros Hx Hl Hw. unfold t_and, t_bin. rewrite (broadcast_scalar_like _ _ (proj1 Hx) Hl). f_equal.
  rewrite <- (tab_get_id y false Hw) at 2. apply tab_ext. intros idx Hb.
  now rewrite (get_expand_scalar_like x true _ idx Hx Hb), get_expand_self.
Qed.

(* logical_or: a single False of rank <= rank y is neutral *)
Theorem or_false_neutral x y : scalar_like x false -> length (shape x) <= length (shape y) -> wf y -> t_or x y = Some y.
Proof.
  intros Hx Hl Hw. unfold t_or, t_bin. rewrite (broadcast_scalar_like _ _ (proj1 Hx) Hl). f_equal.
  rewrite <- (tab_get_id y false Hw) at 2. apply tab_ext. intros idx Hb.
  now rewrite (get_expand_scalar_like x false _ idx Hx Hb), get_expand_self.
Qed.

(* the guard `ndim <= other.ndim` is needed: a (1,1) True against a (2,) operand changes the shape *)
Example and_true_higher_rank_not_neutral :
  t_and {| shape := [1; 1]; data := [true] |} {| shape := [2]; data := [true; false] |}
  = Some {| shape := [1; 2]; data := [true; false] |}.
Proof. reflexivity. Qed.
