(* Machine/MachineSim.v — C01 / C16: if a program evaluates on data, then for ANY subset of
   placeholders and with or without onnxruntime it also traces, and every graph variable of the
   traced run evaluates (on the same data) to the eager value. *)
From Coq Require Import List Arith Bool Lia.
From ND Require Import Machine.Machine Machine.MachineFacts.
Import ListNotations.

Section Sim.
  Variables (val opid : Type).
  Variable sem : opid -> list val -> option val.
  Notation gexpr := (gexpr val opid).
  Notation carr := (carr val opid).
  Notation heap := (heap val opid).
  Notation geval := (geval val opid sem).
  Notation step := (step val opid sem).
  Notation run := (run val opid sem).
  Notation prim := (prim val opid sem).
  Notation copy := (copy val opid).
  Notation lookups := (lookups val opid).
  Notation set_nth := (set_nth val opid).
  Notation Inv := (Inv val opid).
  Notation Rel := (Rel val opid sem).
  Notation GConst := (GConst val opid).
  Notation GNode := (GNode val opid).
  Notation GArg := (GArg val opid).
  Notation var := (var val opid).
  Notation eager := (eager val opid).
  Notation neutral := (neutral val opid sem).

  Variable env : nat -> val.
  Definition R1 (ce cl : carr) : Prop := exists v, eager ce = Some v /\ geval env (var cl) = Some v.

  Lemma rel_app he hl ce cl : Rel env he hl -> R1 ce cl -> Rel env (he ++ [ce]) (hl ++ [cl]).
  Proof.
    intros [Hl Hr] H1. split; [rewrite !app_length; simpl; lia|].
    intros l xe xl He Hlz. destruct (Nat.lt_ge_cases l (length he)) as [Hlt|Hge].
    - rewrite nth_error_app1 in He by lia. rewrite nth_error_app1 in Hlz by lia. eauto.
    - rewrite nth_error_app2 in He by lia. rewrite nth_error_app2 in Hlz by lia. rewrite <- Hl in Hlz.
      destruct (l - length he) as [|m]; simpl in *; [|destruct m; discriminate].
      inversion He; inversion Hlz; subst. exact H1.
  Qed.

  Lemma rel_nth he hl l ce : Rel env he hl -> nth_error he l = Some ce -> exists cl, nth_error hl l = Some cl /\ R1 ce cl.
  Proof.
    intros [Hl Hr] He. destruct (nth_error hl l) as [cl|] eqn:E.
    - exists cl. split; auto. eapply Hr; eauto.
    - apply nth_error_None in E. assert (l < length he) by (apply nth_error_Some; congruence). lia.
  Qed.

  Lemma rel_lookups he hl args ces : Rel env he hl -> lookups he args = Some ces ->
    exists cls, lookups hl args = Some cls /\ Forall2 R1 ces cls.
  Proof.
    unfold lookups. intros Hr. revert ces. induction args as [|a r IH]; intros ces H; simpl in *.
    - inversion H. exists []. split; auto.
    - destruct (nth_error he a) as [ce|] eqn:Ea; try discriminate.
      destruct (all_some (map (nth_error he) r)) as [ces'|] eqn:Er; try discriminate. inversion H; subst.
      destruct (IH ces' eq_refl) as [cls [Hc Hf]]. destruct (rel_nth he hl a ce Hr Ea) as [cl [Hcl H1]].
      exists (cl :: cls). rewrite Hcl, Hc. split; auto.
  Qed.

  (* values carried by related argument lists *)
  Lemma f2_values ces cls : Forall2 R1 ces cls ->
    exists vs, all_some (map eager ces) = Some vs /\ all_some (map (geval env) (map var cls)) = Some vs.
  Proof.
    induction 1 as [|ce cl ces cls [v [Hv Hg]] _ [vs [H1 H2]]]; simpl.
    - exists []. auto.
    - exists (v :: vs). rewrite Hv, H1, Hg, H2. auto.
  Qed.

  Lemma f2_eager_agree ces cls vs vs' : Forall2 R1 ces cls ->
    (forall cl v, In cl cls -> eager cl = Some v -> var cl = GConst v) ->
    all_some (map eager ces) = Some vs -> all_some (map eager cls) = Some vs' -> vs' = vs.
  Proof.
    intros Hf. revert vs vs'. induction Hf as [|ce cl ces cls [v [Hv Hg]] _ IH]; intros vs vs' Hi H1 H2; simpl in *.
    - congruence.
    - rewrite Hv in H1. destruct (all_some (map eager ces)) as [a|] eqn:E1; try discriminate.
      destruct (eager cl) as [v'|] eqn:Ev; try discriminate.
      destruct (all_some (map eager cls)) as [b|] eqn:E2; try discriminate.
      inversion H1; inversion H2; subst.
      assert (v' = v). { rewrite (Hi cl v') in Hg by auto. simpl in Hg. congruence. }
      subst. f_equal. apply IH; auto.
  Qed.

  Lemma lookups_in (h : heap) args cs c : lookups h args = Some cs -> In c cs -> In c h.
  Proof.
    unfold lookups. revert cs. induction args as [|a r IH]; intros cs H Hin; simpl in *.
    - inversion H; subst. destruct Hin.
    - destruct (nth_error h a) as [x|] eqn:E; try discriminate.
      destruct (all_some (map (nth_error h) r)) as [cs'|]; try discriminate. inversion H; subst.
      destruct Hin as [<- | Hin]; [eapply nth_error_In; eauto | eauto].
  Qed.

  (* ---- one primitive ------------------------------------------------------------------------- *)
  Lemma sim_prim ort he hl k args he' : Rel env he hl -> Inv hl ->
    prim true he k args = Some he' ->
    exists hl', prim ort hl k args = Some hl' /\ Rel env he' hl'.
  Proof.
    intros Hr Hi H. unfold prim in *.
    destruct (lookups he args) as [ces|] eqn:El; try discriminate.
    destruct (rel_lookups he hl args ces Hr El) as [cls [Hc Hf]]. rewrite Hc.
    destruct (f2_values ces cls Hf) as [vs [H1 H2]].
    destruct (all_some (map eager ces)) as [vs0|] eqn:E0.
    2:{ congruence. }
    assert (vs0 = vs) by congruence. subst vs0.
    destruct (sem k vs) as [r|] eqn:Es; try discriminate. inversion H; subst. clear H.
    assert (Hnode : Rel env (he ++ [{| Machine.var := GConst r; Machine.eager := Some r |}])
                            (hl ++ [{| Machine.var := GNode k (map var cls); Machine.eager := None |}])).
    { apply rel_app; auto. exists r. split; auto. simpl var. rewrite geval_node. now rewrite H2. }
    destruct ort; [|eexists; split; [reflexivity|exact Hnode]].
    destruct (all_some (map eager cls)) as [vs'|] eqn:E'; [|eexists; split; [reflexivity|exact Hnode]].
    assert (vs' = vs).
    { eapply f2_eager_agree; eauto. intros cl v Hin He. apply (Hi cl v); auto. eapply lookups_in; eauto. }
    subst. rewrite Es. eexists; split; [reflexivity|]. apply rel_app; auto. exists r. split; reflexivity.
  Qed.

  Lemma sim_copy he hl l he' : Rel env he hl -> Inv hl -> copy he l = Some he' ->
    exists hl', copy hl l = Some hl' /\ Rel env he' hl'.
  Proof.
    intros Hr Hi H. unfold copy in *. destruct (nth_error he l) as [ce|] eqn:Ee; try discriminate.
    destruct (rel_nth he hl l ce Hr Ee) as [cl [Hcl [v [Hv Hg]]]]. rewrite Hcl. inversion H; subst. clear H.
    eexists; split; [reflexivity|]. apply rel_app; auto. rewrite Hv.
    destruct (eager cl) as [v'|] eqn:Ev.
    - assert (v' = v). { rewrite (Hi cl v') in Hg; auto. simpl in Hg; congruence. eapply nth_error_In; eauto. }
      subst. exists v. split; reflexivity.
    - exists v. split; auto.
  Qed.

  Lemma lookups_value he args ces vs pc c ce v :
    lookups he args = Some ces -> all_some (map eager ces) = Some vs ->
    nth_error args pc = Some c -> nth_error he c = Some ce -> eager ce = Some v ->
    nth_error vs pc = Some v.
  Proof.
    unfold lookups. revert ces vs pc. induction args as [|a r IH]; intros ces vs pc H1 H2 Hp Hc Hv; simpl in *.
    - destruct pc; discriminate.
    - destruct (nth_error he a) as [x|] eqn:Ea; try discriminate.
      destruct (all_some (map (nth_error he) r)) as [ces'|] eqn:Er; try discriminate. inversion H1; subst. simpl in H2.
      destruct (eager x) as [vx|] eqn:Ex; try discriminate.
      destruct (all_some (map eager ces')) as [vs'|] eqn:Ev; try discriminate. inversion H2; subst.
      destruct pc as [|pc]; simpl in *.
      + inversion Hp; subst. congruence.
      + eapply IH; eauto.
  Qed.

  (* ---- one instruction ------------------------------------------------------------------------ *)
  Lemma sim_step lazy ort he hl i he' :
    (forall n v, i = IInput val opid n v -> env n = v) -> neutral i ->
    Rel env he hl -> Inv hl ->
    step (fun _ => false) true he i = Some he' ->
    exists hl', step lazy ort hl i = Some hl' /\ Rel env he' hl'.
  Proof.
    intros Henv Hneu Hr Hi H. destruct i as [n v|k args|l|d s|c o p k args]; simpl in H |- *.
    - inversion H; subst. eexists; split; [reflexivity|]. apply rel_app; auto.
      exists v. split; auto. destruct (lazy n); simpl; auto. now rewrite (Henv n v eq_refl).
    - eapply sim_prim; eauto.
    - eapply sim_copy; eauto.
    - destruct (nth_error he d) as [ced|] eqn:Ed; try discriminate.
      destruct (nth_error he s) as [ces|] eqn:Es; try discriminate. inversion H; subst. clear H.
      destruct (rel_nth he hl d ced Hr Ed) as [cld [Hcld _]].
      destruct (rel_nth he hl s ces Hr Es) as [cls [Hcls H1]]. rewrite Hcld, Hcls.
      eexists; split; [reflexivity|]. destruct Hr as [Hlen Hrel]. split; [now rewrite !length_set_nth|].
      intros l xe xl Hxe Hxl.
      rewrite nth_error_set_nth in Hxe by (apply nth_error_Some; congruence).
      rewrite nth_error_set_nth in Hxl by (apply nth_error_Some; congruence).
      destruct (Nat.eqb l d); [inversion Hxe; inversion Hxl; subst; exact H1 | eauto].
    - destruct (lookups he args) as [ces|] eqn:El; try discriminate.
      destruct (rel_lookups he hl args ces Hr El) as [cls [Hcls Hf]]. rewrite Hcls.
      destruct (nth_error he c) as [cc|] eqn:Ec; try discriminate.
      destruct (rel_nth he hl c cc Hr Ec) as [cc' [Hcc' [v [Hv Hg]]]]. rewrite Hcc'. rewrite Hv in H.
      destruct (p v) eqn:Ep.
      + (* the eager run took the shortcut *)
        destruct (eager cc') as [v'|] eqn:Ev'.
        * assert (v' = v). { rewrite (Hi cc' v') in Hg; auto. simpl in Hg; congruence. eapply nth_error_In; eauto. }
          subst. rewrite Ep. eapply sim_copy; eauto.
        * (* ... the traced run cannot see the value: by neutrality the primitive computes the
             operand the shortcut returned *)
          destruct Hneu as [pc [po [Hpc [Hpo Hn]]]].
          unfold copy in H. destruct (nth_error he o) as [co|] eqn:Eo; try discriminate.
          destruct (rel_nth he hl o co Hr Eo) as [co' [Hco' [w [Hw Hgw]]]]. rewrite Hw in H. inversion H; subst. clear H.
          destruct (f2_values ces cls Hf) as [vs [H1 H2]].
          assert (Hlen : length vs = length args).
          { rewrite (all_some_length _ _ H1), map_length. unfold lookups in El.
            rewrite (all_some_length _ _ El), map_length. reflexivity. }
          pose proof (lookups_value he args ces vs pc c cc v El H1 Hpc Ec Hv) as Hvc.
          destruct (Hn vs v Hvc Ep Hlen) as [w' [Hw' Hsem]].
          pose proof (lookups_value he args ces vs po o co w El H1 Hpo Eo Hw) as Hvo.
          assert (w' = w) by congruence. subst w'.
          apply (sim_prim ort he hl k args); auto.
          unfold prim. rewrite El, H1, Hsem. reflexivity.
      + destruct (eager cc') as [v'|] eqn:Ev'.
        * assert (v' = v). { rewrite (Hi cc' v') in Hg; auto. simpl in Hg; congruence. eapply nth_error_In; eauto. }
          subst. rewrite Ep. eapply sim_prim; eauto.
        * eapply sim_prim; eauto.
  Qed.

  Definition env_ok (p : list (instr val opid)) : Prop := forall n v, In (IInput val opid n v) p -> env n = v.

  (* C01 / C16 *)
  Theorem C01_sim p : forall lazy ort he hl he',
    env_ok p -> Forall neutral p -> Rel env he hl -> Inv hl ->
    run (fun _ => false) true he p = Some he' ->
    exists hl', run lazy ort hl p = Some hl' /\ Rel env he' hl'.
  Proof.
    induction p as [|i r IH]; intros lazy ort he hl he' Henv Hneu Hr Hi H; simpl in *.
    - inversion H; subst. exists hl. split; auto.
    - destruct (step (fun _ => false) true he i) as [he1|] eqn:E; try discriminate.
      inversion Hneu as [|? ? Hn1 Hnr]; subst.
      destruct (sim_step lazy ort he hl i he1) as [hl1 [Hs Hr1]]; auto.
      { intros n v ->. apply Henv. now left. }
      rewrite Hs. apply (IH lazy ort he1 hl1 he'); auto.
      + intros n v Hin. apply Henv. now right.
      + eapply inv_step; eauto.
  Qed.

  (* from the empty heap: the statement of the property *)
  Corollary C01_exported_equals_eager p lazy ort he' :
    env_ok p -> Forall neutral p ->
    run (fun _ => false) true [] p = Some he' ->
    exists hl', run lazy ort [] p = Some hl' /\ length hl' = length he' /\
      forall l ce cl, nth_error he' l = Some ce -> nth_error hl' l = Some cl ->
        exists v, eager ce = Some v /\ geval env (var cl) = Some v.
  Proof.
    intros Henv Hneu H.
    destruct (C01_sim p lazy ort [] [] he' Henv Hneu) as [hl' [Hrun [Hlen Hrel]]]; auto.
    - split; auto. intros l ce cl Hn. destruct l; discriminate.
    - intros c v [].
    - exists hl'. repeat split; auto.
  Qed.
End Sim.
