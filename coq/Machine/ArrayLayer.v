(* Machine/ArrayLayer.v — the Array layer over the object heap: an Array is a core-array object or a struct of named
   field Arrays; two Arrays alias exactly when they reach a common _CoreArray object.  Frame theorem at this level, and
   Array.copy allocates fresh objects only. *)
From Coq Require Import List Arith Bool String Lia.
From ND Require Import Machine.Machine Machine.MachineFacts.
Import ListNotations.

Section ArrayLayer.
  Variables (val opid : Type).
  Variable sem : opid -> list val -> option val.
  Notation heap := (heap val opid).
  Notation carr := (carr val opid).
  Notation instr := (instr val opid).

  Inductive aobj := ACore (l : nat) | AStruct (fs : list (string * aobj)).

  (* the _CoreArray objects an Array is made of (Array._fields, recursively), in field order *)
  Fixpoint reach (a : aobj) : list nat :=
    match a with
    | ACore l => [l]
    | AStruct fs => (fix go (l : list (string * aobj)) := match l with [] => [] | (_, x) :: r => (reach x ++ go r)%list end) fs
    end.

  (* what can be observed of an Array: the objects it reaches *)
  Definition observe (h : heap) (a : aobj) : list (option carr) := map (nth_error h) (reach a).

  (* whatever program runs — primitives, copies, shortcuts, in-place updates of OTHER objects — an Array none of whose
     objects is the target of an in-place update is observably unchanged *)
  Theorem array_frame lazy ort p h h' b :
    run val opid sem lazy ort h p = Some h' ->
    (forall l, In l (reach b) -> l < List.length h) ->
    (forall d s, In (ISet val opid d s) p -> ~ In d (reach b)) ->
    observe h' b = observe h b.
  Proof.
    intros Hr Hl Hd. unfold observe. apply map_ext_in. intros l Hin.
    apply (run_frame val opid sem lazy ort p h h' l Hr (Hl l Hin)).
    intros d s Hi E. subst d. exact (Hd l s Hi Hin).
  Qed.

  (* in particular: x[idx] = v on Array a (in-place updates of objects of a only) cannot change an Array b that shares
     no object with a *)
  Corollary disjoint_arrays_do_not_interfere lazy ort p h h' a b :
    run val opid sem lazy ort h p = Some h' ->
    (forall l, In l (reach b) -> l < List.length h) ->
    (forall d s, In (ISet val opid d s) p -> In d (reach a)) ->
    (forall l, In l (reach a) -> ~ In l (reach b)) ->
    observe h' b = observe h b.
  Proof.
    intros Hr Hl Ha Hdis. apply (array_frame lazy ort p h h' b Hr Hl).
    intros d s Hi Hb. exact (Hdis d (Ha d s Hi) Hb).
  Qed.

  (* and sharing an object IS aliasing: an in-place update of a shared object is seen through both Arrays *)
  Theorem shared_object_is_aliasing (h : heap) l s c cs :
    nth_error h l = Some c -> nth_error h s = Some cs ->
    step val opid sem (fun _ => false) true h (ISet val opid l s) = Some (set_nth val opid h l {| var := var val opid cs; eager := eager val opid cs |})
    /\ forall a, In l (reach a) -> In (Some {| var := var val opid cs; eager := eager val opid cs |})
                                      (observe (set_nth val opid h l {| var := var val opid cs; eager := eager val opid cs |}) a).
  Proof.
    intros Hl Hs. split.
    - simpl. now rewrite Hl, Hs.
    - intros a Hin. unfold observe. apply in_map_iff. exists l. split; [|exact Hin].
      rewrite nth_error_set_nth by (apply nth_error_Some; congruence). now rewrite Nat.eqb_refl.
  Qed.

  (* Array.copy: every reached object is copied (ICopy), the result reaches fresh objects only *)
  Fixpoint acopy (h : heap) (a : aobj) : option (heap * aobj) :=
    match a with
    | ACore l => match copy val opid h l with Some h' => Some (h', ACore (List.length h)) | None => None end
    | AStruct fs =>
        match (fix go (h0 : heap) (l : list (string * aobj)) : option (heap * list (string * aobj)) :=
                 match l with
                 | [] => Some (h0, [])
                 | (f, x) :: r =>
                     match acopy h0 x with
                     | Some (h1, x') => match go h1 r with Some (h2, r') => Some (h2, (f, x') :: r') | None => None end
                     | None => None
                     end
                 end) h fs with
        | Some (h', fs') => Some (h', AStruct fs')
        | None => None
        end
    end.

  (* the copy extends the heap and reaches only objects allocated by the copy *)
  Fixpoint acopy_fresh (a : aobj) : forall h h' a', acopy h a = Some (h', a') ->
    (exists ext, h' = (h ++ ext)%list) /\ forall l, In l (reach a') -> List.length h <= l < List.length h'.
  Proof.
    destruct a as [l0 | fs]; intros h h' a' H; simpl in H.
    - destruct (copy val opid h l0) as [h1|] eqn:E; [|discriminate]. injection H as <- <-.
      destruct (copy_appends val opid h l0 h1 E) as [c ->]. split; [now exists [c]|].
      intros l [<-|[]]. rewrite app_length. simpl. lia.
    - destruct ((fix go (h0 : heap) (l : list (string * aobj)) : option (heap * list (string * aobj)) :=
                 match l with
                 | [] => Some (h0, [])
                 | (f, x) :: r =>
                     match acopy h0 x with
                     | Some (h1, x') => match go h1 r with Some (h2, r') => Some (h2, (f, x') :: r') | None => None end
                     | None => None
                     end
                 end) h fs) as [[h1 fs']|] eqn:E; [|discriminate].
      injection H as <- <-. simpl.
      revert h h1 fs' E. induction fs as [|[f x] r IH]; intros h h1 fs' E.
      + injection E as <- <-. split; [exists []; now rewrite app_nil_r|]. intros l [].
      + destruct (acopy h x) as [[h2 x']|] eqn:Ex; [|discriminate].
        destruct ((fix go (h0 : heap) (l : list (string * aobj)) : option (heap * list (string * aobj)) :=
                 match l with
                 | [] => Some (h0, [])
                 | (f, x) :: r =>
                     match acopy h0 x with
                     | Some (h1, x') => match go h1 r with Some (h2, r') => Some (h2, (f, x') :: r') | None => None end
                     | None => None
                     end
                 end) h2 r) as [[h3 r']|] eqn:Er; [|discriminate].
        injection E as <- <-.
        destruct (acopy_fresh x h h2 x' Ex) as [[e1 ->] Hx].
        destruct (IH (h ++ e1)%list h3 r' Er) as [[e2 ->] Hr].
        split; [exists (e1 ++ e2)%list; now rewrite app_assoc|].
        intros l Hin. apply in_app_or in Hin as [Hin|Hin].
        * specialize (Hx l Hin). rewrite !app_length in *. lia.
        * specialize (Hr l Hin). rewrite !app_length in *. lia.
  Qed.

  (* hence a copy shares no object with any Array that existed before it *)
  Corollary copy_shares_nothing a h h' a' b : acopy h a = Some (h', a') ->
    (forall l, In l (reach b) -> l < List.length h) -> forall l, In l (reach a') -> ~ In l (reach b).
  Proof.
    intros H Hb l Hin Hinb. destruct (acopy_fresh a h h' a' H) as [_ Hf]. specialize (Hf l Hin). specialize (Hb l Hinb). lia.
  Qed.
End ArrayLayer.
