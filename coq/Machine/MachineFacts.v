From Coq Require Import List Arith Bool Lia.
From ND Require Import Machine.Machine.
Import ListNotations.

Section Facts.
  Variables (val opid : Type).
  Variable sem : opid -> list val -> option val.
  Notation gexpr := (gexpr val opid).
  Notation carr := (carr val opid).
  Notation heap := (heap val opid).
  Notation geval := (geval val opid sem).
  Notation step := (step val opid sem).
  Notation run := (run val opid sem).
  Notation prim := (prim val opid sem).
  Notation copy := (copy val opid).
  Notation lookups := (lookups val opid).
  Notation set_nth := (set_nth val opid).
  Notation Inv := (Inv val opid).
  Notation Rel := (Rel val opid sem).
  Notation GConst := (GConst val opid).
  Notation GNode := (GNode val opid).
  Notation GArg := (GArg val opid).
  Notation var := (var val opid).
  Notation eager := (eager val opid).

  Lemma geval_node env k args :
    geval env (GNode k args) =
    match all_some (map (geval env) args) with Some vs => sem k vs | None => None end.
  Proof.
    simpl.
    match goal with |- match ?f args with _ => _ end = _ =>
      assert (E : forall l, f l = all_some (map (geval env) l)) end.
    { induction l as [|a r IH]; simpl; auto.
      destruct (geval env a); auto. rewrite IH. destruct (all_some (map (geval env) r)); auto. }
    rewrite E. reflexivity.
  Qed.

  (* ---- heap plumbing -------------------------------------------------------------------------- *)
  Lemma nth_error_set_nth (h : heap) d c l : d < length h ->
    nth_error (set_nth h d c) l = if Nat.eqb l d then Some c else nth_error h l.
  Proof.
    revert d l. induction h as [|x r IH]; intros d l Hd; simpl in *; [lia|].
    destruct d as [|d]; destruct l as [|l]; simpl; auto. apply IH. lia.
  Qed.

  Lemma length_set_nth (h : heap) d c : length (set_nth h d c) = length h.
  Proof. revert d. induction h as [|x r IH]; intros d; destruct d; simpl; auto. Qed.

  Lemma in_set_nth (h : heap) d c x : In x (set_nth h d c) -> x = c \/ In x h.
  Proof.
    revert d. induction h as [|y r IH]; intros d H; destruct d; simpl in *; try tauto.
    - destruct H; auto.
    - destruct H as [H | H]; auto. apply IH in H. tauto.
  Qed.

  Lemma all_some_length {A} (l : list (option A)) s : all_some l = Some s -> length s = length l.
  Proof.
    revert s. induction l as [|[a|] r IH]; intros s H; simpl in *; try discriminate.
    - inversion H. reflexivity.
    - destruct (all_some r) eqn:E; try discriminate. inversion H. simpl. f_equal. now apply IH.
  Qed.

  Lemma all_some_nth {A} (l : list (option A)) s i a :
    all_some l = Some s -> nth_error l i = Some (Some a) -> nth_error s i = Some a.
  Proof.
    revert s i. induction l as [|[x|] r IH]; intros s i H Hn; simpl in *; try discriminate.
    - destruct i; discriminate.
    - destruct (all_some r) eqn:E; try discriminate. inversion H; subst.
      destruct i; simpl in *; [congruence|]. now apply (IH l).
  Qed.

  (* ---- C07 soundness: every reported value is a constant of the graph --------------------------- *)
  Lemma inv_app h c : Inv h -> (forall v, eager c = Some v -> var c = GConst v) -> Inv (h ++ [c]).
  Proof.
    intros Hi Hc x v Hin He. apply in_app_or in Hin as [Hin | [<- | []]]; auto.
  Qed.

  Lemma inv_prim ort h k args h' : Inv h -> prim ort h k args = Some h' -> Inv h'.
  Proof.
    unfold prim. intros Hi H. destruct (lookups h args) as [cs|]; try discriminate.
    destruct (if ort then all_some (map eager cs) else None) as [vs|].
    - destruct (sem k vs) as [r|]; try discriminate. inversion H; subst. apply inv_app; auto.
      simpl. intros v [= ->]. reflexivity.
    - inversion H; subst. apply inv_app; auto. simpl. discriminate.
  Qed.

  Lemma inv_copy h l h' : Inv h -> copy h l = Some h' -> Inv h'.
  Proof.
    unfold copy. intros Hi H. destruct (nth_error h l) as [c|] eqn:E; try discriminate.
    inversion H; subst. apply inv_app; auto. destruct (eager c) as [w|]; simpl; [intros v [= ->]; reflexivity|discriminate].
  Qed.

  Lemma inv_step lazy ort h i h' : Inv h -> step lazy ort h i = Some h' -> Inv h'.
  Proof.
    intros Hi H. destruct i as [n v|k args|l|d s|c o p k args]; simpl in H.
    - inversion H; subst. apply inv_app; auto. destruct (lazy n); simpl; [discriminate|intros w [= ->]; reflexivity].
    - eapply inv_prim; eauto.
    - eapply inv_copy; eauto.
    - destruct (nth_error h d) eqn:Ed; try discriminate. destruct (nth_error h s) as [src|] eqn:Es; try discriminate.
      inversion H; subst. intros x v Hin He. apply in_set_nth in Hin as [-> | Hin]; [|now apply (Hi x)].
      simpl in *. apply (Hi src); auto. eapply nth_error_In; eauto.
    - destruct (lookups h args); try discriminate. destruct (nth_error h c) as [cc|]; try discriminate.
      destruct (eager cc) as [v|]; [destruct (p v)|]; eauto using inv_prim, inv_copy.
  Qed.

  Lemma inv_run lazy ort p : forall h h', Inv h -> run lazy ort h p = Some h' -> Inv h'.
  Proof.
    induction p as [|i r IH]; intros h h' Hi H; simpl in H.
    - inversion H; subst. exact Hi.
    - destruct (step lazy ort h i) as [h1|] eqn:E; try discriminate.
      apply (IH h1 h'); [eapply inv_step; eauto | exact H].
  Qed.

  Lemma inv_nil : Inv [].
  Proof. intros c v []. Qed.

  (* C07: whenever an array reports a value, the exported graph produces that value for EVERY
     assignment of the placeholders (it does not depend on them at all) *)
  Theorem C07_sound lazy ort p h' : run lazy ort [] p = Some h' ->
    forall c v, In c h' -> eager c = Some v -> forall env, geval env (var c) = Some v.
  Proof.
    intros H c v Hin He env. rewrite (inv_run lazy ort p [] h' inv_nil H c v Hin He). reflexivity.
  Qed.

  (* C07 completeness: with onnxruntime present and no placeholder, every array holds data and
     every graph variable is a constant (no compute node is ever exported) *)
  Definition AllConst (h : heap) : Prop := forall c, In c h -> exists v, eager c = Some v /\ var c = GConst v.

  Lemma allconst_all_some (h : heap) ls cs : AllConst h -> lookups h ls = Some cs ->
    exists vs, all_some (map eager cs) = Some vs.
  Proof.
    unfold lookups. revert cs. induction ls as [|l r IH]; intros cs Ha H; simpl in *.
    - inversion H. exists []. reflexivity.
    - destruct (nth_error h l) as [c|] eqn:E; try discriminate.
      destruct (all_some (map (nth_error h) r)) as [cs'|] eqn:E2; try discriminate. inversion H; subst.
      destruct (IH cs' Ha eq_refl) as [vs Hvs]. destruct (Ha c (nth_error_In _ _ E)) as [v [Hv _]].
      exists (v :: vs). simpl. now rewrite Hv, Hvs.
  Qed.

  Lemma allconst_step h i h' : AllConst h -> step (fun _ => false) true h i = Some h' -> AllConst h'.
  Proof.
    intros Ha H.
    assert (Happ : forall c, (exists v, eager c = Some v /\ var c = GConst v) -> AllConst (h ++ [c])).
    { intros c Hc x Hin. apply in_app_or in Hin as [Hin | [<- | []]]; auto. }
    assert (Hprim : forall k args h1, prim true h k args = Some h1 -> AllConst h1).
    { intros k args h1 Hp. unfold prim in Hp. destruct (lookups h args) as [cs|] eqn:El; try discriminate.
      destruct (allconst_all_some h args cs Ha El) as [vs Hvs]. rewrite Hvs in Hp.
      destruct (sem k vs) as [r|]; try discriminate. inversion Hp; subst. apply Happ. exists r. split; reflexivity. }
    assert (Hcopy : forall l h1, copy h l = Some h1 -> AllConst h1).
    { intros l h1 Hc. unfold copy in Hc. destruct (nth_error h l) as [c|] eqn:E; try discriminate.
      inversion Hc; subst. apply Happ. destruct (Ha c (nth_error_In _ _ E)) as [v [Hv _]]. rewrite Hv. exists v. split; reflexivity. }
    destruct i as [n v|k args|l|d s|c o p k args]; simpl in H; eauto.
    - inversion H; subst. apply Happ. exists v. split; reflexivity.
    - destruct (nth_error h d) eqn:Ed; try discriminate. destruct (nth_error h s) as [src|] eqn:Es; try discriminate.
      inversion H; subst. intros x Hin. apply in_set_nth in Hin as [-> | Hin]; auto.
      simpl. destruct (Ha src (nth_error_In _ _ Es)) as [v [Hv Hc]]. exists v. split; auto.
    - destruct (lookups h args); try discriminate. destruct (nth_error h c) as [cc|]; try discriminate.
      destruct (eager cc) as [v|]; [destruct (p v)|]; eauto.
  Qed.

  Theorem C07_complete p : forall h h', AllConst h -> run (fun _ => false) true h p = Some h' -> AllConst h'.
  Proof.
    induction p as [|i r IH]; intros h h' Ha H; simpl in H.
    - inversion H; subst. exact Ha.
    - destruct (step (fun _ => false) true h i) as [h1|] eqn:E; try discriminate.
      apply (IH h1 h'); [eapply allconst_step; eauto | exact H].
  Qed.

  (* C16: without onnxruntime no primitive ever reports a value *)
  Theorem C16_no_value_without_ort h k args h' c :
    prim false h k args = Some h' -> nth_error h' (length h) = Some c -> eager c = None.
  Proof.
    unfold prim. intros H Hn. destruct (lookups h args) as [cs|]; try discriminate.
    inversion H; subst. rewrite nth_error_app2, Nat.sub_diag in Hn by lia. simpl in Hn. inversion Hn. reflexivity.
  Qed.

  (* ---- C09 / C18 frame: an instruction changes at most its declared target; everything else on
          the heap (every other array obtained earlier) keeps graph variable and value ------------ *)
  Lemma prim_appends ort h k args h' : prim ort h k args = Some h' -> exists c, h' = h ++ [c].
  Proof.
    unfold prim. intros H. destruct (lookups h args) as [cs|]; try discriminate.
    destruct (if ort then all_some (map eager cs) else None) as [vs|].
    - destruct (sem k vs); try discriminate. inversion H. eauto.
    - inversion H. eauto.
  Qed.
  Lemma copy_appends h l h' : copy h l = Some h' -> exists c, h' = h ++ [c].
  Proof. unfold copy. intros H. destruct (nth_error h l); try discriminate. inversion H. eauto. Qed.

  Theorem step_frame lazy ort h i h' l :
    step lazy ort h i = Some h' -> l < length h ->
    (forall d s, i = ISet val opid d s -> l <> d) ->
    nth_error h' l = nth_error h l.
  Proof.
    intros H Hl Hd.
    assert (Happ : forall c, nth_error (h ++ [c]) l = nth_error h l) by (intros; now apply nth_error_app1).
    destruct i as [n v|k args|x|d s|c o p k args]; simpl in H.
    - inversion H; subst. apply Happ.
    - destruct (prim_appends _ _ _ _ _ H) as [c ->]. apply Happ.
    - destruct (copy_appends _ _ _ H) as [c ->]. apply Happ.
    - destruct (nth_error h d) eqn:Ed; try discriminate. destruct (nth_error h s) as [src|] eqn:Es; try discriminate.
      inversion H; subst. rewrite nth_error_set_nth by (apply nth_error_Some; congruence).
      specialize (Hd d s eq_refl). destruct (Nat.eqb l d) eqn:E; auto. apply Nat.eqb_eq in E. contradiction.
    - destruct (lookups h args); try discriminate. destruct (nth_error h c) as [cc|]; try discriminate.
      destruct (eager cc) as [v|]; [destruct (p v)|];
        first [destruct (copy_appends _ _ _ H) as [c' ->] | destruct (prim_appends _ _ _ _ _ H) as [c' ->]]; apply Happ.
  Qed.

  (* over whole programs: an array that is never the target of an in-place update is never changed *)
  Theorem run_frame lazy ort p : forall h h' l,
    run lazy ort h p = Some h' -> l < length h ->
    (forall d s, In (ISet val opid d s) p -> l <> d) ->
    nth_error h' l = nth_error h l.
  Proof.
    induction p as [|i r IH]; intros h h' l H Hl Hd; simpl in H.
    - inversion H. reflexivity.
    - destruct (step lazy ort h i) as [h1|] eqn:E; try discriminate.
      assert (Hlen : length h <= length h1).
      { destruct i as [n v|k args|x|d s|c o pp k args]; simpl in E.
        - inversion E. rewrite app_length. lia.
        - destruct (prim_appends _ _ _ _ _ E) as [c ->]. rewrite app_length. lia.
        - destruct (copy_appends _ _ _ E) as [c ->]. rewrite app_length. lia.
        - destruct (nth_error h d); try discriminate. destruct (nth_error h s); try discriminate. inversion E. now rewrite length_set_nth.
        - destruct (lookups h args); try discriminate. destruct (nth_error h c) as [cc|]; try discriminate.
          destruct (eager cc) as [v|]; [destruct (pp v)|];
            first [destruct (copy_appends _ _ _ E) as [c' ->] | destruct (prim_appends _ _ _ _ _ E) as [c' ->]]; rewrite app_length; lia. }
      rewrite (IH h1 h' l H); [|lia|intros d s Hin; apply (Hd d s); now right].
      apply (step_frame lazy ort h i h1 l E Hl). intros d s ->. apply (Hd d s). now left.
  Qed.
End Facts.
