(* Machine/Sites.v — the value-dependent sites of the pinned tree (census by tools/translate/gen_src.py census(),
   committed): every read of an eager value, of a static shape or of the ORT flag inside ndonnx/, and the
   decorator/body shape of every primitive of _opset_extensions.py.  The machine models exactly these sites:
   _CoreArray (_set, copy, to_numpy), the eager_propagate wrapper, Array.to_numpy/shape/ndim/__repr__ and the
   scalar protocols (reads), logical_and / logical_or / where (value-dependent shortcuts: IShort). *)
From Coq Require Import List String.
Import ListNotations.
Open Scope string_scope.

Definition expected_sites : list string := [
  "ndonnx/_array.py:Array.__bool__:to_numpy#1";
  "ndonnx/_array.py:Array.__float__:to_numpy#1";
  "ndonnx/_array.py:Array.__index__:to_numpy#1";
  "ndonnx/_array.py:Array.__int__:to_numpy#1";
  "ndonnx/_array.py:Array.__repr__:to_numpy#1";
  "ndonnx/_array.py:Array._static_shape:to_numpy#1";
  "ndonnx/_array.py:Array.ndim:_static_shape#1";
  "ndonnx/_array.py:Array.shape:to_numpy#1";
  "ndonnx/_array.py:Array.to_numpy:to_numpy#1";
  "ndonnx/_core/_boolimpl.py:_BooleanOperationsImpl.logical_and:to_numpy#2";
  "ndonnx/_core/_boolimpl.py:_BooleanOperationsImpl.logical_or:to_numpy#2";
  "ndonnx/_core/_shapeimpl.py:UniformShapeOperations.where:to_numpy#20";
  "ndonnx/_corearray.py:_CoreArray.__init__:_eager_value#2";
  "ndonnx/_corearray.py:_CoreArray.__repr__:to_numpy#1";
  "ndonnx/_corearray.py:_CoreArray._set:_eager_value#1";
  "ndonnx/_corearray.py:_CoreArray._set:to_numpy#1";
  "ndonnx/_corearray.py:_CoreArray.copy:_eager_value#2";
  "ndonnx/_corearray.py:_CoreArray.to_numpy:_eager_value#1";
  "ndonnx/_corearray.py:_CoreArray:_eager_value#1";
  "ndonnx/_propagation.py:<module>:ORT_PRESENT#2";
  "ndonnx/_propagation.py:_aggregate_arguments.collect_lazy_arguments:_static_shape#1";
  "ndonnx/_propagation.py:_aggregate_arguments.collect_lazy_arguments:to_numpy#4";
  "ndonnx/_propagation.py:_eager_propagate_with_custom_operators.decorator.wrapper:ORT_PRESENT#1";
  "ndonnx/_propagation.py:_eager_propagate_with_custom_operators.decorator.wrapper:_eager_value#1";
  "ndonnx/_propagation.py:_flatten:to_numpy#1"
].

Definition expected_primitives : list string := [
  "add|eager_propagate|simple|var-only";
  "string_concat|eager_propagate|simple|var-only";
  "expand|eager_propagate|simple|var-only";
  "asin|eager_propagate|simple|var-only";
  "range|eager_propagate|simple|var-only";
  "asinh|eager_propagate|simple|var-only";
  "atan|eager_propagate|simple|var-only";
  "atanh|eager_propagate|simple|var-only";
  "or_|eager_propagate|simple|var-only";
  "mul|eager_propagate|simple|var-only";
  "cast|eager_propagate|simple|var-only";
  "shape|eager_propagate|simple|var-only";
  "top_k|eager_propagate|multi|var-only";
  "where|eager_propagate|simple|var-only";
  "not_|eager_propagate|simple|var-only";
  "eye_like|eager_propagate|simple|var-only";
  "gather_elements|eager_propagate|simple|var-only";
  "equal|eager_propagate|simple|var-only";
  "reshape|eager_propagate|simple|var-only";
  "mod|eager_propagate|simple|var-only";
  "pow|eager_propagate|simple|var-only";
  "div|eager_propagate|simple|var-only";
  "sub|eager_propagate|simple|var-only";
  "ceil|eager_propagate|simple|var-only";
  "transpose|eager_propagate|simple|var-only";
  "const|eager_propagate|multi|var-only";
  "squeeze|eager_propagate|multi|var-only";
  "abs|eager_propagate|simple|var-only";
  "sin|eager_propagate|simple|var-only";
  "cos|eager_propagate|simple|var-only";
  "log|eager_propagate|simple|var-only";
  "exp|eager_propagate|simple|var-only";
  "tan|eager_propagate|simple|var-only";
  "acos|eager_propagate|simple|var-only";
  "neg|eager_propagate|simple|var-only";
  "sqrt|eager_propagate|simple|var-only";
  "floor|eager_propagate|simple|var-only";
  "tanh|eager_propagate|simple|var-only";
  "sinh|eager_propagate|simple|var-only";
  "cosh|eager_propagate|simple|var-only";
  "round|eager_propagate|simple|var-only";
  "less|eager_propagate|simple|var-only";
  "less_or_equal|eager_propagate|simple|var-only";
  "greater|eager_propagate|simple|var-only";
  "greater_or_equal|eager_propagate|simple|var-only";
  "isnan|eager_propagate|simple|var-only";
  "isinf|eager_propagate|simple|var-only";
  "reduce_sum|eager_propagate|simple|var-only";
  "reduce_min|eager_propagate|simple|var-only";
  "reduce_max|eager_propagate|simple|var-only";
  "reduce_mean|eager_propagate|simple|var-only";
  "reduce_prod|eager_propagate|simple|var-only";
  "concat|eager_propagate|simple|var-only";
  "unsqueeze|eager_propagate|multi|var-only";
  "trilu|eager_propagate|simple|var-only";
  "unique|eager_propagate|multi|var-only";
  "and_|eager_propagate|simple|var-only";
  "gather|eager_propagate|simple|var-only";
  "cumsum|eager_propagate|simple|var-only";
  "split|eager_propagate|simple|var-only";
  "clip|eager_propagate|simple|var-only";
  "matmul|eager_propagate|simple|var-only";
  "arg_max|eager_propagate|simple|var-only";
  "arg_min|eager_propagate|simple|var-only";
  "bitwise_and|eager_propagate|simple|var-only";
  "bitwise_or|eager_propagate|simple|var-only";
  "bitwise_xor|eager_propagate|simple|var-only";
  "bitwise_not|eager_propagate|simple|var-only";
  "bit_shift|eager_propagate|simple|var-only";
  "xor|eager_propagate|simple|var-only";
  "acosh|eager_propagate|simple|var-only";
  "getitem_null|eager_propagate|multi|var-only";
  "getitem|eager_propagate|multi|var-only";
  "setitem|eager_propagate|multi|var-only";
  "ndindex|eager_propagate|multi|var-only";
  "reshape_like|eager_propagate|multi|var-only";
  "static_map|eager_propagate|multi|var-only";
  "get_indices|eager_propagate|multi|var-only"
].
