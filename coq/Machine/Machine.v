(* Machine/Machine.v — the object layer of ndonnx as a small abstract machine: _CoreArray objects
   (graph variable + optional eager value) on a heap, the @eager_propagate wrapper around every
   primitive, copy, in-place _set, and value-dependent shortcuts.  Kernels (`sem`) are abstract:
   they are onnxruntime's.  Model file: definitions only. *)
From Coq Require Import List Arith Bool.
Import ListNotations.

Section Machine.
  Variables (val opid : Type).
  Variable sem : opid -> list val -> option val.          (* one ONNX node, evaluated *)

  (* spox graph values *)
  Inductive gexpr := GArg (i : nat) | GConst (v : val) | GNode (k : opid) (args : list gexpr).

  Fixpoint all_some {A} (l : list (option A)) : option (list A) :=
    match l with
    | [] => Some []
    | Some a :: r => match all_some r with Some s => Some (a :: s) | None => None end
    | None :: _ => None
    end.

  (* running the exported graph on a placeholder assignment *)
  Fixpoint geval (env : nat -> val) (e : gexpr) : option val :=
    match e with
    | GArg i => Some (env i)
    | GConst v => Some v
    | GNode k args =>
        let fix evs (l : list gexpr) : option (list val) :=
          match l with
          | [] => Some []
          | a :: r => match geval env a, evs r with Some v, Some vs => Some (v :: vs) | _, _ => None end
          end in
        match evs args with Some vs => sem k vs | None => None end
    end.

  (* a _CoreArray *)
  Record carr := { var : gexpr; eager : option val }.
  Definition heap := list carr.

  Inductive instr :=
    | IInput (n : nat) (v : val)                 (* asarray(v) or array(shape=..., dtype=...) fed with v *)
    | IPrim (k : opid) (args : list nat)         (* any @eager_propagate primitive *)
    | ICopy (l : nat)                            (* _CoreArray.copy *)
    | ISet (dst src : nat)                       (* _CoreArray._set (in-place update, setitem, op=) *)
    | IShort (c o : nat) (p : val -> bool) (k : opid) (args : list nat).
        (* value-dependent shortcut: if c holds a value v with p v then copy(o) else Prim k args *)

  Definition lookups (h : heap) (ls : list nat) : option (list carr) := all_some (map (nth_error h) ls).

  Fixpoint set_nth (h : heap) (d : nat) (c : carr) : heap :=
    match h, d with
    | [], _ => []
    | _ :: r, O => c :: r
    | x :: r, S d' => x :: set_nth r d' c
    end.

  Definition prim (ort : bool) (h : heap) (k : opid) (args : list nat) : option heap :=
    match lookups h args with
    | None => None
    | Some cs =>
        match (if ort then all_some (map eager cs) else None) with
        | Some vs => match sem k vs with                           (* constant folding *)
                     | Some r => Some (h ++ [{| var := GConst r; eager := Some r |}])
                     | None => None                                  (* the eager call raises *)
                     end
        | None => Some (h ++ [{| var := GNode k (map var cs); eager := None |}])
        end
    end.

  Definition copy (h : heap) (l : nat) : option heap :=
    match nth_error h l with
    | Some c => Some (h ++ [match eager c with
                            | Some v => {| var := GConst v; eager := Some v |}
                            | None => {| var := var c; eager := None |} end])
    | None => None
    end.

  Definition step (lazy : nat -> bool) (ort : bool) (h : heap) (i : instr) : option heap :=
    match i with
    | IInput n v => Some (h ++ [if lazy n then {| var := GArg n; eager := None |}
                                else {| var := GConst v; eager := Some v |}])
    | IPrim k args => prim ort h k args
    | ICopy l => copy h l
    | ISet d s =>
        match nth_error h d, nth_error h s with
        | Some _, Some c => Some (set_nth h d {| var := var c; eager := eager c |})
        | _, _ => None
        end
    | IShort c o p k args =>
        match lookups h args, nth_error h c with       (* the operands are the function's arguments *)
        | Some _, Some cc => match eager cc with
                             | Some v => if p v then copy h o else prim ort h k args
                             | None => prim ort h k args
                             end
        | _, _ => None
        end
    end.

  Fixpoint run (lazy : nat -> bool) (ort : bool) (h : heap) (p : list instr) : option heap :=
    match p with
    | [] => Some h
    | i :: r => match step lazy ort h i with Some h' => run lazy ort h' r | None => None end
    end.

  (* every reported value is a constant of the graph *)
  Definition Inv (h : heap) : Prop := forall c v, In c h -> eager c = Some v -> var c = GConst v.

  (* he: the all-eager run; hl: a traced run.  Same objects; every graph variable of the traced
     run evaluates, on the data, to the eager value *)
  Definition Rel (env : nat -> val) (he hl : heap) : Prop :=
    length he = length hl /\
    forall l ce cl, nth_error he l = Some ce -> nth_error hl l = Some cl ->
      exists v, eager ce = Some v /\ geval env (var cl) = Some v.

  (* a shortcut is neutral when the primitive would have computed the operand it returns *)
  Definition neutral (i : instr) : Prop :=
    match i with
    | IShort c o p k args =>
        exists pc po, nth_error args pc = Some c /\ nth_error args po = Some o /\
        forall vs v, nth_error vs pc = Some v -> p v = true -> length vs = length args ->
                     exists w, nth_error vs po = Some w /\ sem k vs = Some w
    | _ => True
    end.
End Machine.
